# oblig/registry.py -- obligation registry (DESIGN 2.2).
# One record per obligation group = one CBMC run on one harness entry that
# #includes the real translation unit from /repo/src.

OBLIGATIONS = []
PROPERTIES = {}


def O(id, props, harness, entry, sentence, functions, **kw):
    d = dict(id=id, properties=props if isinstance(props, list) else [props],
             harness="harness/" + harness, entry=entry, sentence=sentence,
             functions=functions)
    d.update(kw)
    OBLIGATIONS.append(d)
    return d


# every source of libechse.la (src/Makefile am_libechse_la_OBJECTS) for native replays that need the whole library
LIBECHSE = ["instant.c", "range.c", "dt-strpf.c", "module.c", "hash.c", "intern.c", "state.c", "task.c",
            "strlst.c", "bufpool.c", "event.c", "evstrm.c", "evical.c", "evrrul.c", "evmrul.c", "evfilt.c",
            "tzob.c", "scale.c", "shift.c", "tzraw.c", "bitint.c", "echse-genuid.c"]
ECHSD_NATIVE = dict(native_srcs=LIBECHSE + ["logger.c"], native_libs=["-lev", "-lltdl", "-lm"])


def P(id, **kw):
    PROPERTIES[id] = kw


# ------------------------------------------------------------------ C08
P("C08", level="proof",
  level_text="Function contracts on the real instant.c / tzob.c / echsd.c code, discharged by CBMC for all valid instants 1901..2099 (no sampling): difference == true elapsed time (pair form), fixup keeps the time point, ordering, forward epoch conversions; the month walk of echs_instant_add by inductive loop contracts. Where the code divides a wide value (add end-to-end, inverse epoch conversion) the claim is proved on named strata only and reported as bounded stand-ins, not as proof.",
  level_note="Trusted: CBMC's C semantics and back ends; spec_cal.h as the definition of the calendar (self-tested against libc at setup, internal consistency by obligation C08.spec*); replaced static kernels are discharged by C08.kernels. Not decided: echs_instant_add for arbitrary 64-bit durations end-to-end, general inverse epoch conversion (strata only).",
  trusted=["spec_cal.h day numbering (checked against timegm/gmtime at setup, and by obligation C08.spec)"],
  not_covered=["echs_instant_add with arbitrary 64-bit durations end-to-end (wide division, R1): strata only",
               "epoch_to_echs_instant for arbitrary time_t (wide division): strata only"])

O("C08.spec", ["C08", "C01", "C15", "C17"], "h_C08.c", "h_C08_spec",
  "spec vocabulary: y%4 leap rule == Gregorian rule on 1901..2099, consecutive days have consecutive numbers, weekday anchor",
  [], timeout={"quick": 300, "thorough": 1800})
O("C08.spec.order", ["C08", "C20"], "h_C08.c", "h_C08_spec_order",
  "spec lemma: lexicographic (y,m,d) order equals day-number order on valid dates (lets I_LT avoid wide comparisons)",
  [], timeout={"quick": 600, "thorough": 1800})
O("C08.spec.horner", "C08", "h_C08.c", "h_C08_spec_horner",
  "spec lemma: the Horner form on digit differences equals the difference of the ms-of-day values (distributivity, word-level solvers)",
  [], solver=["z3", "cvc5", "kissat"], timeout={"quick": 600, "thorough": 1800})
O("C08.kernels", "C08", "h_C08.c", "h_C08_kernels",
  "__jan00, __doy, __get_mdays equal the spec's day number of Jan 0, ordinal day and month length for every date 1901..2099",
  ["__jan00", "__doy", "__get_mdays"], solver=["minisat", "kissat"])
O("C08.diff", ["C08", "C14"], "h_C08.c", "h_C08_diff",
  "echs_instant_diff(end,beg) equals true elapsed time (pair form: whole days, ms in the day; value = days*86400000+ms in 64 bits) for all pairs of valid instants of one kind, any sign, any span",
  ["echs_instant_diff"], dfcc=True, replace=["__jan00", "__doy"],
  replace_status={"__jan00": "discharged by C08.kernels", "__doy": "discharged by C08.kernels"},
  solver=["kissat", "z3", "cvc5"])
O("C08.fixup.timed", "C08", "h_C08.c", "h_C08_fixup_timed",
  "echs_instant_fixup of an over-full timed instant yields a valid instant denoting the same time point; identity on valid instants",
  ["echs_instant_fixup", "__get_mdays"], unwind=14)
O("C08.fixup.allday", "C08", "h_C08.c", "h_C08_fixup_allday",
  "echs_instant_fixup of an over-full all-day instant yields the valid date with the same day number",
  ["echs_instant_fixup", "__get_mdays"], unwind=14)
O("C08.fixup.allsec", "C08", "h_C08.c", "h_C08_fixup_allsec",
  "echs_instant_fixup of an over-full all-sec instant yields the valid all-sec instant of the same second",
  ["echs_instant_fixup", "__get_mdays"], unwind=14)
O("C08.order", ["C08", "C20"], "h_C08.c", "h_C08_order",
  "echs_instant_lt_p / le_p are the chronological order on valid instants; all-day before timed values of the same day",
  ["echs_instant_lt_p", "echs_instant_le_p"])

O("C08.add.walk", "C08", "h_C08.c", "h_C08_add_walk",
  "echs_instant_add: for every valid base and every duration within +-80000 days the result is a real date whose day number is the base's plus the day count (inductive loop contracts on both month walks, termination by decreases)",
  ["echs_instant_add"], dfcc=True, loop_contracts=True, replace=["__get_mdays"],
  replace_status={"__get_mdays": "discharged by C08.kernels"},
  solver=["minisat", "kissat"], timeout={"quick": 600, "thorough": 1800},
  assumptions=["C division identity add.d == (add.d/86400000)*86400000 + add.d%86400000 connects the pair form (ghost dd0, msd0) to the 64-bit duration; not machine-checked (wide division, R1)"])
O("C08.add.tod", "C08", "h_C08.c", "h_C08_add_tod",
  "echs_instant_add: the time of day of the result is the base's plus the sub-day part of the duration, digit by digit in carry form, carrying at most one day",
  ["echs_instant_add"], dfcc=True, loop_contracts=True, replace=["__get_mdays"],
  solver=["minisat", "kissat", "z3"], timeout={"quick": 600, "thorough": 1800})

O("C08.epoch.to", ["C08", "C07"], "h_C08_epoch.c", "h_C08_to_epoch",
  "echs_instant_to_epoch(i) == days since 1970-01-01 * 86400 + second of day, for every valid timed instant 1901..2099 (every month, before and after 1970 and 2038)",
  ["echs_instant_to_epoch", "__inst_to_epoch"], solver=["minisat", "kissat", "z3"],
  native_srcs=["tzraw.c", "hash.c", "instant.c"])

O("C08.epoch.from", ["C08"], "h_C08_epoch.c", "h_C08_from_epoch",
  "epoch_to_echs_instant(t): for every second of 1901..2099 the result is the valid whole-second instant whose date is the floor day count since 1970-01-01 and whose time of day is the remainder (pair form)",
  ["epoch_to_echs_instant", "__epoch_to_inst"], solver=["minisat", "kissat", "z3"], unwind=3,
  native_srcs=["tzraw.c", "hash.c", "instant.c"],
  assumptions=["C division identity t == (t/86400)*86400 + t%86400 connects the pair form (ghost d, s) to the time_t value; not machine-checked (wide division, R1)"])
O("C08.epoch.roundtrip.stratum", ["C08"], "h_C08_epoch.c", "h_C08_epoch_roundtrip_stratum",
  "instant -> unix time -> instant is the identity (end to end, no trusted identity) on a stratum of years",
  ["echs_instant_to_epoch", "epoch_to_echs_instant"], kind="bounded",
  bound={"quick": "years 1969..1971 (every second)", "thorough": "years 1960..1980 (every second)"},
  defines={"quick": ["-DSTRATUM_YLO=1969U", "-DSTRATUM_YHI=1971U"], "thorough": ["-DSTRATUM_YLO=1960U", "-DSTRATUM_YHI=1980U"]},
  solver=["minisat", "kissat", "z3"], unwind=3, timeout={"quick": 300, "thorough": 1800},
  native_srcs=["tzraw.c", "hash.c", "instant.c"])

O("C08.tstamp", ["C08", "C04"], "h_C08_tstamp.c", "h_C08_tstamp",
  "instant_to_tstamp(i) (the value the daemon arms its timer with) is exactly the unix time of the instant, for every valid instant 1901..2099",
  ["instant_to_tstamp"], defines=["-DTS_YLO=1901U"], solver=["minisat", "kissat", "z3"], timeout={"quick": 1800, "thorough": 3600}, **ECHSD_NATIVE)

# ------------------------------------------------------------------ C19
P("C19", level="proof",
  level_text="Contracts over the whole abstract view (the set as bit masks) on the real bitint.h / bitint.c code, discharged by CBMC for every representable container state and every value of the documented range: insertion is set union, membership test is membership, one iterator call delivers the first undelivered member and a non-zero cursor past it (or ends), and - machine-checked from that contract - a full iteration yields each member exactly once and stops.",
  level_note="Trusted: CBMC semantics; the view definitions in spec_view.h (taken from the representation comments in bitint.h). The iteration lemma (collect loops) uses the iterator contracts that the *_next obligations discharge.",
  not_covered=[])
for t, u in (("bui31", 34), ("bui63", 66), ("bi31", 34), ("bi63", 66)):
    O("C19.ass_%s" % t, "C19", "h_C19.c", "h_C19_ass_%s" % t,
      "ass_%s: for every well-formed container and every value of the range, the result is well-formed and its view is the old view plus the value; has_bit_p agrees with the view" % t,
      ["ass_%s" % t] + (["%s_has_bit_p" % t] if t.endswith("31") else []), solver=["minisat", "kissat"])
    O("C19.%s_next" % t, ["C19", "C01"], "h_C19.c", "h_C19_%s_next" % t,
      "%s_next: for every well-formed container and every reachable cursor the call delivers the first undelivered member in rank order with a non-zero cursor past it, or cursor 0 when none is left" % t,
      ["%s_next" % t], unwind=u, solver=["minisat", "kissat"])
for t in ("bui31", "bui63", "bi31", "bi63"):
    O("C19.collect_%s" % t, ["C19", "C09"], "h_C19.c", "h_C19_collect_%s" % t,
      "%s: a complete iteration in the callers' protocol yields each member exactly once, nothing else, and ends (lemma L-C19 checked from the iterator contract with an inductive loop invariant)" % t,
      ["%s_next" % t], dfcc=True, replace=["%s_next" % t], loop_contracts=True,
      replace_status={"%s_next" % t: "discharged by C19.%s_next" % t},
      solver=["minisat", "kissat"], timeout={"quick": 600, "thorough": 1800})
for w, nw in (("383", 12), ("447", 14)):
    O("C19.ass_bi%s" % w, "C19", "h_C19b.c", "h_C19_ass_bi%s" % w,
      "ass_bi%s: for every well-formed container (native list or bitset) and every x, q of the range: the result is well-formed and q is a member iff it was one or q == x (whole view, witness q); the degrade step through the static scratch array included" % w,
      ["ass_bi%s" % w, "ass_bs%s" % w, "ass_int%s" % w], unwind=nw + 2, solver=["minisat", "kissat"], timeout={"quick": 600, "thorough": 1800})
    O("C19.bi%s_next" % w, ["C19", "C01"], "h_C19b.c", "h_C19_bi%s_next" % w,
      "bi%s_next: for every well-formed container and cursor: a delivered value is a member lying at/after the old and before the new cursor, no undelivered member is skipped, the cursor only moves forward, and the iteration ends only when every member has been delivered (witness q)" % w,
      ["bi%s_next" % w], unwind=34, solver=["minisat", "kissat"], timeout={"quick": 600, "thorough": 1800})
O("C19.bi383_max0", "C19", "h_C19b.c", "h_C19_bi383_max0",
  "bi383_max0: returns max(set U {0})", ["bi383_max0"], unwind=34, solver=["minisat", "kissat"])

# ------------------------------------------------------------------ C18
P("C18", level="proof",
  level_text="Contracts on the real dt-strpf.c code: every valid instant 1901..2099 (date, date-time, with ms) printed by dt_strf / dt_strf_ical parses back to itself (all instants, one CBMC query each); duration parsing equals the ISO 8601 value for every spelling with up to 4 digits per component and any sign; the duration print/parse round trip is proved on named strata only (the printer divides a 64-bit value; wide division is undecidable for the installed back ends) and those are reported as bounded stand-ins.",
  level_note="Trusted: CBMC semantics. Bounded: digits per duration component <= 4 (parser), strata of the duration round trip. Not covered: range_strp/range_strf, durations with a sub-second part (ISO form has no fraction; the printer drops it).",
  not_covered=["duration round trip outside the strata (wide division in idiff_strf and ui32tostr)", "range_strp / range_strf", "sub-second parts of durations"])
O("C18.dt.iso", "C18", "h_C18.c", "h_C18_dt_iso",
  "dt_strp(dt_strf(i)) == i for every valid instant (date-only, whole-second, with ms), explicit and implicit length; buffer safety",
  ["dt_strf", "dt_strp", "ui32tpstr"], unwind=8, solver=["minisat", "kissat"])
O("C18.dt.ical", "C18", "h_C18.c", "h_C18_dt_ical",
  "dt_strp(dt_strf_ical(i)) == i at whole-second resolution for every valid instant: no separators, with and without Z",
  ["dt_strf_ical", "dt_strp", "ui32tpstr"], unwind=8, solver=["minisat", "kissat"])
for lay in ("W", "D", "H", "M", "S", "HMS", "DH", "MS"):
    for sg, sgn in ((0, ""), (1, "+"), (2, "-")):
        nd = 4 if len(lay) == 1 else 2
        defs = ["-DL_SIGN=%d" % sg, "-DNDIG=%d" % nd] + ["-DL_%s=%d" % (c, 1 if c in lay else 0) for c in "WDHMS"]
        O("C18.idiff.strp.%s%s" % ({0: "u", 1: "p", 2: "n"}[sg], lay), ["C18", "C14"], "h_C18.c", "h_C18_idiff_strp",
          "idiff_strp reads the spelling %sP.. with components %s (%d symbolic digits each, leading zeros allowed) as its ISO 8601 value in ms: 64-bit, sign honoured" % (sgn, lay, nd),
          ["idiff_strp"], kind="bounded", bound="%d digits per component" % nd, defines=defs, unwind=8,
          cbmc_flags=["--unwindset", "idiff_strp.0:6,idiff_strp.3:6,idiff_strp.1:3,idiff_strp.2:3,idiff_strp.4:3,idiff_strp.5:3,idiff_strp.6:3"],
          solver=["minisat", "z3"], timeout={"quick": 600, "thorough": 1800})
IDIFF_UW = ["--unwindset", "idiff_strp.0:7,idiff_strp.3:7,idiff_strp.1:3,idiff_strp.2:3,idiff_strp.4:3,idiff_strp.5:3,idiff_strp.6:3"]
for name, unit, q, t in (("sec", 1000, 3599, 200000), ("min", 60000, 1439, 20000), ("hour", 3600000, 99, 9999), ("day", 86400000, 999, 99999)):
    O("C18.idiff.roundtrip.%s" % name, ["C18", "C14"], "h_C18.c", "h_C18_idiff_roundtrip",
      "idiff_strp(idiff_strf(d)) == d and the text is NUL-terminated within the buffer, on the stratum d = k*%d ms" % unit,
      ["idiff_strf", "idiff_strp", "ui32tostr", "ilog10_ceil", "ilog2_ceil"], kind="bounded",
      bound={"quick": "k = 0..%d (every multiple of %d ms)" % (q, unit), "thorough": "k = 0..%d (every multiple of %d ms)" % (t, unit)},
      defines={"quick": ["-DRT_LO=0", "-DRT_HI=%d" % q, "-DRT_UNIT=%dLL" % unit], "thorough": ["-DRT_LO=0", "-DRT_HI=%d" % t, "-DRT_UNIT=%dLL" % unit]},
      unwind=12, cbmc_flags=IDIFF_UW, solver=["minisat", "kissat"], timeout={"quick": 600, "thorough": 3600})

# ------------------------------------------------------------------ C15
P("C15", level="proof",
  level_text="Contracts on the real scale.c conversion functions with both data tables as in the tree, discharged by CBMC over every day of 1901..2099 symbolically: round trips, successor, month length == distance of first days, weekday == weekday of the Gregorian image, rejection outside the tables. The table scans run over constant data and are unwound completely.",
  level_note="Trusted: CBMC semantics; spec_cal.h day numbering. Known findings (carved regions, replayed each run) are listed in known_findings.json.",
  not_covered=["echs_instant_rescale's tz/scale bit handling beyond the conversions"])
O("C15.greg", "C15", "h_C15.c", "h_C15_greg",
  "g2mjd == MJD of the date, mjd2g inverts it, Gregorian month length and both weekday formulas equal the spec for every date 1901..2099",
  ["g2mjd", "mjd2g", "__ndim_greg", "__wday_greg"], solver=["minisat", "kissat"], timeout={"quick": 600, "thorough": 1800})
O("C15.greg.inv", "C15", "h_C15.c", "h_C15_greg_inv",
  "mjd2g(j) is a real date and g2mjd inverts it for every day number of 1901..2099",
  ["g2mjd", "mjd2g"], solver=["minisat", "kissat"], timeout={"quick": 600, "thorough": 1800})
O("C15.hij", "C15", "h_C15.c", "h_C15_hij",
  "arithmetic Hijri scales (types I-IV x astronomical/civil epoch), every day of 1901..2099: real date, round trip, successor, month length == distance of first days, weekday",
  ["mjd2hij", "hij2mjd", "__ndim_hij", "__hij_inty_p", "__wday_hij"], defines=["-DHIJ_TYPES_LO=0", "-DHIJ_TYPES_HI=2"], solver=["minisat", "kissat"], timeout={"quick": 600, "thorough": 1800})
O("C15.hij.IV", "C15", "h_C15.c", "h_C15_hij",
  "arithmetic Hijri scales of type IV (HIJRI.IVA / HIJRI.IVC), negative shift: same contract as C15.hij",
  ["mjd2hij", "hij2mjd", "__hij_yoff", "__ndim_hij", "__hij_inty_p", "__wday_hij"], defines=["-DHIJ_TYPES_LO=3", "-DHIJ_TYPES_HI=3"],
  solver=["minisat", "kissat"], timeout={"quick": 600, "thorough": 1800})
for tab, n in (("dat_ummulqura", 1752), ("dat_diyanet", 1526)):
    O("C15.table.%s" % tab[4:], "C15", "h_C15.c", "h_C15_table",
      "%s: every day of 1901..2099: covered days map to a real date, back to the same day, to the right weekday and successor; days outside the coverage are rejected (scan over the constant table unwound completely)" % tab,
      ["mjd2ht", "ht2mjd", "__ndim_ht", "__wday_ht"], defines=["-DTABLE=" + tab] + (["-DTABLE_COVERS_1901"] if tab == "dat_diyanet" else []), unwind=n + 2,
      solver=["minisat", "kissat"], timeout={"quick": 1800, "thorough": 3600})
O("C15.rescale.reject", "C15", "h_C15.c", "h_C15_rescale_reject",
  "echs_instant_rescale(table scale -> Gregorian): dates outside the table are rejected, covered dates map to the Gregorian date of their day number",
  ["echs_instant_rescale", "ht2mjd", "mjd2g"], solver=["minisat", "kissat"], native_srcs=["tzob.c", "tzraw.c", "hash.c", "instant.c"])
O("C15.dispatch", "C15", "h_C15.c", "h_C15_dispatch",
  "echs_scale_ndim / echs_scale_wday use, for each of the 11 scale names, that scale's own intercalation type, epoch or table",
  ["echs_scale_ndim", "echs_scale_wday"], solver=["minisat", "kissat"], timeout={"quick": 600, "thorough": 1800})
O("C15.rescale.roundtrip", "C15", "h_C15.c", "h_C15_rescale_roundtrip",
  "echs_instant_rescale: Gregorian -> arithmetic Hijri scale -> Gregorian is the identity for every date 1938..2076, scale tag kept",
  ["echs_instant_rescale"], solver=["minisat", "kissat"], timeout={"quick": 1800, "thorough": 3600}, native_srcs=["tzob.c", "tzraw.c", "hash.c", "instant.c"])

# ------------------------------------------------------------------ C20
P("C20", level="other",
  level_text="Proof obligations (all inputs): the comparator used by both sorts is a strict weak (indeed total) order on all 2^64 bit patterns and agrees with chronological order incl. all-day-first (C08.order), and the binary searches of the sort stay in range and terminate (loop contracts). The sentence of the property itself - sorted, permutation, stable - relates moving array slots to each other, which CBMC contracts without quantifiers cannot carry, so it is reached only by bounded end-to-end runs of the real echs_instant_sort / echs_event_sort on symbolic keys (lengths stated per run), reported as bounded stand-ins; the three merge routines of the block-merge path (MergeExternal, MergeInternal; MergeInPlace in the thorough tier) are likewise run one call each on two adjacent sorted ranges of symbolic events and checked for ordered / whole-element permutation / stability / frame.",
  level_note="Trusted: CBMC semantics; memcpy/memmove modelled element-wise in the merge runs. Bounded: array length 3 and 5 (8 thorough) for the whole sort; ranges of 0..3 (0..2 for MergeInPlace) elements for the merge routines. Not covered: WikiSort's own block bookkeeping for n >= 1024 (pull ranges, block tagging, sqrt()).",
  explanation="comparator axioms and binary-search safety are proved for all inputs; sortedness/permutation/stability only up to the stated array lengths (bounded stand-in)",
  not_covered=["WikiSort's block bookkeeping for n >= 1024 (pull ranges, block tagging, sqrt()): seed C20-m1", "sortedness/permutation/stability beyond the stated lengths"])
O("C20.lt.axioms", "C20", "h_C20.c", "h_C20_lt_axioms",
  "echs_instant_lt_p is irreflexive, asymmetric, transitive with transitive incomparability on all 2^64 bit patterns (sentinels and their wrap-around included)",
  ["echs_instant_lt_p", "echs_instant_le_p"], solver=["minisat", "kissat"])
for n, tiers in ((3, ["quick", "thorough"]), (5, ["quick", "thorough"]), (8, ["thorough"])):
    O("C20.sort.instants.n%d" % n, "C20", "h_C20.c", "h_C20_sort_instants",
      "echs_instant_sort on %d symbolic 64-bit keys: result ordered, a permutation of the input (witness value)" % n,
      ["echs_instant_sort", "WikiSort", "InsertionSort"], kind="bounded", bound="array length == %d" % n,
      defines=["-DSORT_N=%d" % n], unwind=n + 2, tiers=tiers,
      solver=["minisat", "kissat"], timeout={"quick": 600, "thorough": 3600})
    O("C20.sort.events.n%d" % n, "C20", "h_C20e.c", "h_C20_sort_events",
      "echs_event_sort on %d events with symbolic starts and an index tag in the oid: ordered, a permutation moved whole, and stable (equal starts keep their input order)" % n,
      ["echs_event_sort", "WikiSort", "InsertionSort"], kind="bounded", bound="array length == %d" % n,
      defines=["-DSORT_N=%d" % n], unwind=n + 2, tiers=tiers,
      solver=["minisat", "kissat"], timeout={"quick": 600, "thorough": 3600}, native_srcs=["instant.c"])

# ------------------------------------------------------------------ C01 kernels / C17 Easter
K = dict(solver=["minisat", "kissat"], timeout={"quick": 1800, "thorough": 3600},
         native_srcs=[x for x in LIBECHSE if x != "evrrul.c"], native_libs=["-lltdl", "-lm"])
O("C01.k.wday", ["C01", "C16"], "h_C01k.c", "h_C01_k_wday",
  "ymd_get_wday, get_jan01_wday, yd_get_wday, ymd_get_yd, __get_ndom, get_isowk, inc_wd equal the spec for every date 1901..2099",
  ["ymd_get_wday", "get_jan01_wday", "yd_get_wday", "ymd_get_yd", "__get_ndom", "get_isowk", "inc_wd"], **K)
O("C01.k.ymcw", "C01", "h_C01k.c", "h_C01_k_ymcw",
  "__get_mcnt and ymcw_get_dom: the c-th / |c|-th last weekday w of a month, 0 when it does not exist, for all y, m, c in -5..5, w",
  ["__get_mcnt", "ymcw_get_dom"], **K)
O("C01.k.ycw", "C01", "h_C01k.c", "h_C01_k_ycw",
  "ycw_get_yday: the c-th / |c|-th last weekday w of a year (53-weekday years included) for all y, c in -53..53, w",
  ["ycw_get_yday"], **K)
O("C01.k.ywd", "C01", "h_C01k.c", "h_C01_k_ywd",
  "ywd_get_yday / ywd_to_md / ywd_get_jan01_hang: the date of ISO 8601 (week, weekday) incl. negative week numbers and weeks reaching into the neighbouring year",
  ["ywd_get_yday", "ywd_to_md", "ywd_get_jan01_hang", "yd_to_md"], **K)
O("C01.k.ywd.prevdec", "C01", "h_C01k.c", "h_C01_k_ywd",
  "ywd_to_md for days of ISO week 1 that lie before Dec 31st of the previous year (region of known finding KF-C01-ywd-prev-december)",
  ["ywd_get_yday", "ywd_to_md", "yd_to_md"], defines=["-DREGION_YWD_BEFORE_DEC31"], finding="KF-C01-ywd-prev-december", **K)
O("C01.k.yd_to_md", ["C01", "C17"], "h_C01k.c", "h_C01_k_yd_to_md",
  "yd_to_md inverts the ordinal day (positive and negative), inc_md is the successor, pack_cand/unpack_cand are inverse and fit the container",
  ["yd_to_md", "inc_md", "pack_cand", "unpack_cand"], **K)
O("C17.easter", ["C17", "C01"], "h_C01k.c", "h_C17_easter",
  "easter_get_yday equals the anonymous Gregorian computus for every year 1901..2099",
  ["easter_get_yday"], **K)

# ------------------------------------------------------------------ C03
P("C03", level="proof",
  level_text="Contract of next_evmux on the real evstrm.c against abstract sorted child streams (every stream class's promised contract): ends iff all constituents ended, delivers a minimal head, consumes without delivering only duplicates of an earlier constituent, peek is idempotent, pop consumes the delivered occurrence, cache coherent. All head values and all peek/pop choices are symbolic; the number of constituents is fixed per obligation (2..4 quick, up to 6 thorough) because 'every s[i] is a valid child' is a universal hypothesis on array contents (no quantifiers on the installed back ends). Completeness over a whole history is lemma L-C03 (prose) over these per-call contracts.",
  level_note="Trusted: CBMC semantics; the abstract child stream model (h_stream.h), substituted textually for the inline vtable wrappers; lemma L-C03. Bounded: number of constituents per obligation. Not covered: echse.c's stream registry (add_strm/rem_strm), varargs constructors beyond their allocation arithmetic.",
  not_covered=["whole-history completeness (L-C03, prose)", "echse.c stream registry", "free/clone lifetimes"])
for ns, tiers in ((2, ["quick", "thorough"]), (3, ["quick", "thorough"]), (4, ["quick", "thorough"]), (6, ["thorough"])):
    O("C03.next_evmux.ns%d" % ns, ["C03", "C02"], "h_C03.c", "h_C03_next_evmux",
      "next_evmux with %d constituents, symbolic heads and successors, peek or pop: end iff all ended; minimal head delivered; only duplicates of an earlier constituent consumed undelivered; peek idempotent; pop consumes; cache coherent" % ns,
      ["next_evmux", "make_evmux"], defines=["-DHNS=%d" % ns], unwind=ns + 2, tiers=tiers,
      solver=["minisat", "kissat"], timeout={"quick": 600, "thorough": 3600},
      assumptions=["abstract child stream model h_stream.h stands for echs_evstrm_next/pop/free/clone (textual substitution of the inline wrappers)"],
      native_srcs=["instant.c"])
O("C03.mux.ctor", "C03", "h_C03.c", "h_C03_mux_ctor",
  "echs_evstrm_mux_clon (varargs collector shared in shape with echs_evstrm_mux): memory safe for 1..5 streams, all streams become constituents in order",
  ["echs_evstrm_mux_clon", "make_evmux"], kind="bounded", bound="1..5 variadic arguments", defines=["-DHNS=3"], unwind=8,
  solver=["minisat", "kissat"], native_srcs=["instant.c"])

# ------------------------------------------------------------------ C02
P("C02", level="proof",
  level_text="Contract of next_evfilt / make_evfilt on the real evfilt.c against abstract strictly increasing occurrence and exception streams: the delivered occurrence is the first one whose start equals no exception start, for all instants, all durations (zero included) and peek/pop; plus the union side (next_evmux, C03 obligations). The walk is a goto-formed loop without a loop-contract slot, so it is explored for up to 3 pending occurrences x 3 pending exceptions per call (bounded stand-in, stated).",
  level_note="Trusted: CBMC semantics, abstract child stream model (h_stream.h). Bounded: 3 occurrences and 3 exceptions pending per call. Not covered: instant_soup's TZID handling of RDATE/EXDATE values (needs the zone database), __make_evrdat, heap lifetimes.",
  not_covered=["TZID conversion of RDATE/EXDATE values (instant_soup)", "several EXDATE property lines in the parser", "heap lifetime of the streams"])
O("C02.next_evfilt", "C02", "h_C02.c", "h_C02_next_evfilt",
  "next_evfilt: with symbolic strictly increasing occurrence and exception streams, any duration >= 0, peek or pop: delivers the first occurrence whose start equals no exception start; ends when all are excluded; pop consumes exactly the delivered one",
  ["next_evfilt", "make_evfilt", "echs_range_overlaps_p", "echs_range_precedes_p", "echs_event_range"], kind="bounded",
  bound="3 pending occurrences x 3 pending exceptions per call", unwind=9, unwinding_assertions=True,
  solver=["minisat", "kissat"], timeout={"quick": 900, "thorough": 3600})

# ------------------------------------------------------------------ C10
P("C10", level="proof",
  level_text="Memory-safety and well-formedness contracts on the real parser front end (evical.c): esccpy for buffers of any size up to 2 KiB / 8 KiB with an inductive loop contract and its frame enforced by DFCC. Independence of chunking itself is NOT claimed: the unchanged parser already violates it (known finding), and a two-run relation over symbolic strings is beyond CBMC's reach at useful lengths.",
  level_note="Trusted: CBMC semantics and its memchr model; Not covered: _ical_pull (the obligation with callees by contract gave no answer in 900 s and is not registered), chunk independence (pre-existing violations on the unchanged tree, see DESIGN.md), _ical_proc / snarf_* on arbitrary bytes.",
  not_covered=["independence of chunking (unchanged tree already violates it: fold marker lost when the stash is empty, escapes cut at a chunk end)", "_ical_pull memory safety (undecided within budget)", "_ical_proc and the field readers on arbitrary bytes (libc string functions, gperf tables)"])
O("C10.esccpy", "C10", "h_C10.c", "h_C10_esccpy",
  "esccpy(tgt,tz,src,sz): for any content and any sizes (tz <= 2 KiB, sz <= 8 KiB) writes only inside tgt[0..tz), returns a length < tz and NUL-terminates (over-long lines return 0); loop invariant inductive, loop terminates",
  ["esccpy"], dfcc=True, enforce="esccpy", loop_contracts=True, solver=["minisat", "kissat"], replay=False,
  replay_note="frame variant (is_fresh inputs)")
# C10.pull (harness h_C10_pull exists): no answer within 900 s at chunk length 12 and within 3600 s at chunk length 6 with the callees by contract -- not registered

# ------------------------------------------------------------------ C12
P("C12", level="proof",
  level_text="Contracts on the real code, system/libev calls replaced by recording stubs: (1) echsd.c - for every N in 1..62 and unset, every running count and spawn outcome, task_cb starts and counts the occurrence below the limit and reports it as not run (--no-run request) at the limit, keeps running <= N; chld_cb uncounts; a refusal of one task leaves the start of another untouched (two-call harness over the static argv); all loop-free, complete. (2) echsx.c - echsx() never starts the job when --no-run is given (C14.echsx). (3) evical.c - the limit's text form: X-ECHS-MAX-SIMUL:N is held as N and written back as N for N = 0..62 over any calendar default, absent/unusable = unlimited (C12.max_simul.text). The invariant over whole histories follows by induction over these per-callback contracts (prose).",
  level_note="Trusted: CBMC semantics; recorder stubs for pipe/posix_spawn*/openat/lseek/close/ev_*, strtol, the fd printer; vtodoify's body dropped in the echsd obligations (writes the request text only); prep/run/mail/jlog/free_task of echsx by recording contracts. Not covered: real process lifetimes, a child of a freed task (chld_cb on a recycled task object).",
  not_covered=["chld_cb for a child whose task object was freed and recycled", "interleavings as such (libev)", "the NOT RUN report text of echsx"])
E12 = dict(gi_steps=[["--remove-function-body", "vtodoify"], ["--generate-function-body", "vtodoify", "--generate-function-body-options", "nondet-return"]],
           solver=["minisat", "kissat"], timeout={"quick": 600, "thorough": 1800}, **ECHSD_NATIVE)
O("C12.task_cb", ["C12", "C04"], "h_C12.c", "h_C12_task_cb",
  "task_cb: one request to the executor per due occurrence; below the limit (or unlimited) it is started, counted and supervised; at the limit it is reported as not run and not counted; running <= N is preserved; N = 1..62 and unset",
  ["task_cb", "run_task", "make_chld"], **E12)
O("C12.chld_cb", "C12", "h_C12.c", "h_C12_chld_cb",
  "chld_cb: a finished execution is uncounted and its watcher stopped", ["chld_cb", "free_chld"], **E12)
O("C12.two_tasks", "C12", "h_C12.c", "h_C12_two_tasks",
  "task A refused at its limit, then task B below its limit: B is started normally (the static argv of run_task carries nothing over), only B's count changes",
  ["task_cb", "run_task"], **E12)

# ------------------------------------------------------------------ C04
P("C04", level="other",
  level_text="The property is a statement about histories of libev callbacks. What contracts carry is the inductive step, proved on the real echsd.c against an abstract sorted task stream: resched/unwind_till arm the timer for exactly the unix time of the first occurrence at or after now, never for the past, discard exactly the past occurrences (several late occurrences collapse into the one armed next), leave the armed occurrence at the head, unschedule a task with no future occurrence without running it, and do not re-arm after the last one; instant_to_tstamp is exact for every instant 1901..2099 (C08.tstamp); task_cb makes exactly one executor request per expiry (C12.task_cb). The history-level claim follows by induction over these contracts and the documented libev contract (lemma L-C04, prose, not machine-checked).",
  level_note="Trusted: libev's periodic-watcher contract; abstract stream model; lemma L-C04. Bounded: 3 pending occurrences per call in the resched obligation. Not covered: add/replace/cancel histories (see C11), child-exit interleavings, ev_rt_now vs wall clock.",
  explanation="per-callback contracts are discharged (resched bounded by 3 pending occurrences); the exactly-once-per-occurrence history claim is an induction in prose over them and the assumed libev contract",
  not_covered=["history-level exactly-once claim (lemma L-C04, prose)", "libev itself", "command histories (add/replace/cancel)"])
O("C04.resched", "C04", "h_C04.c", "h_C04_resched",
  "resched + unwind_till: arms the unix time of the first occurrence >= now, discards exactly the past ones, keeps the armed occurrence at the head, handles 'never run' and 'completed'",
  ["resched", "unwind_till"], dfcc=True, replace=["instant_to_tstamp"], replace_status={"instant_to_tstamp": "discharged by C08.tstamp (value); here by an order-preserving table contract"},
  kind="bounded", bound="3 pending occurrences per call", unwind=6, replay=False, replay_note="callee replaced by contract",
  solver=["minisat", "kissat", "z3"], timeout={"quick": 600, "thorough": 1800})

# ------------------------------------------------------------------ C11
P("C11", level="proof",
  level_text="Contracts of the queue's map operations on the real echsd.c: over every well-formed 16-slot table with symbolic keys, put_task_slot returns the key's home slot, which is empty or already holds the key, every other key keeps its task (witness key; also across a growth of the table, up to 256 slots), failure leaves the table unchanged; get_task is the map lookup; _eject_task1 removes the task only for its owner, exactly that task, and never touches another one. The behaviour over whole request histories follows by induction over these per-operation contracts (prose).",
  level_note="Trusted: CBMC semantics, stubs for ev_periodic_stop / free_echs_task. Bounded: initial table of 16 slots (every slot well-formed is a universal hypothesis, established by an unwound harness loop), growth to <= 256 slots. Not covered: _inject_task1's credential checks (getpwuid), cmd_ical reply protocol, cmd_http listing, socket layer.",
  not_covered=["_inject_task1 ownership/replace path (getpwuid, libev start)", "cmd_ical: one reply per instruction", "cmd_http uid gate (listing)", "growth beyond 256 slots (denial of service by colliding UIDs is a known weakness, not a map violation)"])
E11 = dict(solver=["minisat", "kissat"], timeout={"quick": 900, "thorough": 3600}, unwind=18,
           cbmc_flags=["--malloc-may-fail", "--malloc-fail-null"], **ECHSD_NATIVE)
O("C11.put_slot.empty", ["C11", "C04"], "h_C11.c", "h_C11_put_slot",
  "put_task_slot / get_task, home slot empty (symbolic key, other 15 slots symbolic): home slot returned, all other keys keep their task",
  ["put_task_slot", "get_task", "get_task_slot"], kind="bounded", bound="table of 16 slots", **E11)
O("C11.put_slot.same", ["C11", "C04"], "h_C11.c", "h_C11_put_slot",
  "put_task_slot / get_task, key already present: its slot is returned, all other keys keep their task",
  ["put_task_slot", "get_task", "get_task_slot"], kind="bounded", bound="table of 16 slots", defines=["-DHOME_SAME"], **E11)
for t_, o_, n_ in ((0x15, 0x25, 32), (0x15, 0x35, 64), (0x15, 0x95, 256)):
    O("C11.put_slot.grow%d" % n_, ["C11", "C04"], "h_C11.c", "h_C11_put_slot",
      "put_task_slot on a collision (keys 0x%x / 0x%x, other 15 slots symbolic): the table grows to %d slots, the new key's home slot is empty, every other key keeps its task; allocation failure changes nothing" % (t_, o_, n_),
      ["put_task_slot", "get_task", "get_task_slot"], kind="bounded", bound="table of 16 slots growing to %d, colliding pair concrete" % n_,
      defines=["-DPAIR_T=0x%xULL" % t_, "-DPAIR_O=0x%xULL" % o_], **E11)
O("C11.eject", "C11", "h_C11.c", "h_C11_eject",
  "_eject_task1: unknown task -> failure; another user's task -> failure, task stays scheduled; own task -> stopped and removed; no other task touched",
  ["_eject_task1", "free_task", "get_task"], kind="bounded", bound="table of 16 slots", **E11)

# ------------------------------------------------------------------ C06
P("C06", level="proof",
  level_text="The system-call protocol of a checkpoint on the real echsd.c (chkpnt1, chkpnt) against a ghost file system in which every call may fail: the live per-user queue file is never opened for writing, truncated or unlinked; its only mutation is one rename from that user's temporary file, made only after header, exactly the user's tasks and footer were written and close() succeeded; failures are reported and the temporary removed. Since a crash acts between system calls and rename is atomic this invariant is torn-freedom at every crash point. chkpnt() checkpoints every noted user (witness) or falls back to the full dump when the note array is full. A failing write inside the serialiser is not noticed (known finding, carved out).",
  level_note="Trusted: kernel atomicity of renameat and per-syscall crash granularity; the ghost file system stubs; the serialiser (evical.c echs_icalify_*) represented by stubs that may lose a write. Bounded: task table of 4 slots in the chkpnt1 obligation. Not covered: fsync/power loss, that a reload yields the same tasks (text round trip), chkpnta's internals, cmd_ical's noting of users.",
  not_covered=["durability (fsync, directory)", "reload equivalence (needs the text round trip of C05)", "chkpnta internals (nedtrie)", "cmd_ical: which requests note a user"])
E06 = dict(solver=["minisat", "kissat"], timeout={"quick": 600, "thorough": 1800}, unwind=6, replay=False, replay_note="ghost file system stubs use nondet failures")
O("C06.chkpnt1", "C06", "h_C06.c", "h_C06_chkpnt1",
  "chkpnt1 with every system call allowed to fail (no write failure inside the serialiser): live file only ever replaced by one rename from the complete, closed temporary holding exactly the user's tasks; failure reported and temporary removed otherwise",
  ["chkpnt1"], kind="bounded", bound="task table of 4 slots", **E06)
O("C06.chkpnt1.writefail", "C06", "h_C06.c", "h_C06_chkpnt1",
  "chkpnt1 when a write inside the serialiser fails (region of known finding KF-C06-write-failure)",
  ["chkpnt1"], kind="bounded", bound="task table of 4 slots", defines=["-DREGION_WRITE_FAILED"], finding="KF-C06-write-failure", **E06)
O("C06.chkpnt", ["C06", "C11"], "h_C06.c", "h_C06_chkpnt",
  "chkpnt(): every user noted since the last checkpoint is checkpointed once (witness user); when the 16-entry note array is full the full dump runs instead; the note set is cleared",
  ["chkpnt"], dfcc=True, replace=["chkpnt1", "chkpnta"],
  replace_status={"chkpnt1": "counting contract here; protocol discharged by C06.chkpnt1", "chkpnta": "counting contract (internals not covered)"},
  solver=["minisat", "kissat"], timeout={"quick": 600, "thorough": 1800}, unwind=18, replay=False, replay_note="callees replaced by contracts")

# ------------------------------------------------------------------ C07
P("C07", level="proof",
  level_text="Contracts of the zone lookups on the real tzraw.c in an abstract zone (symbolic strictly increasing transitions, symbolic types and offsets): __find_trno returns the interval of t and terminates; __offs returns the offset in force from a fresh cache and after an arbitrary earlier lookup and keeps the cache coherent (inductive over histories); zif_utc_time/zif_local_time are inverse for unambiguous local times; forward instant->unix time for every month (C08.epoch.to). Zone files are configuration: proofs are for all well-formed zones within the stated number of transitions.",
  level_note="Trusted: CBMC semantics; zone files satisfy ZIF_WF (strictly increasing transitions, type indices < typecnt); C division identity for offset arithmetic (C08). Bounded: number of transitions in the abstract zone (4 quick / 8 thorough) for termination and uniqueness. Not covered: the zoneinfo loader (mmap, byte order, v2+ data), the MFU zone cache of tzob.c, the per-occurrence offset correction in evical.c refill.",
  not_covered=["zoneinfo file loader (__read_zif, __conv_zif), 64-bit data and POSIX TZ footers", "tzob.c MFU cache of open zones and zone-index encoding", "offset correction per occurrence in refill / __make_evrrul (evical.c)"])
E07 = dict(solver=["minisat", "kissat"], timeout={"quick": 900, "thorough": 3600}, unwind=8, native_srcs=[])
O("C07.find_trno", ["C07", "C09"], "h_C07.c", "h_C07_find_trno",
  "__find_trno over every zone with <= 4 strictly increasing transitions and every t: returns the index of the last transition at or before t (-1 before the first) and terminates (unwinding assertion), also when t equals a transition",
  ["__find_trno", "zif_trans"], kind="bounded", bound="<= 4 transitions", **E07)
O("C07.offs", "C07", "h_C07.c", "h_C07_offs",
  "__offs / __find_zrng: from a fresh cache and after an arbitrary earlier lookup the result is the offset in force at t; the cached range contains t and the cached offset is in force on all of it (witness time)",
  ["__offs", "__find_zrng", "__find_trno", "zif_troffs"], kind="bounded", bound="<= 4 transitions, two consecutive lookups", **E07)
O("C07.utc_local", "C07", "h_C07.c", "h_C07_utc_local",
  "zif_local_time == UTC + offset in force; zif_utc_time inverts it for local times more than a day away from every transition",
  ["zif_local_time", "zif_utc_time", "__offs"], kind="bounded", bound="<= 4 transitions", **E07)

# ------------------------------------------------------------------ C14
P("C14", level="other",
  level_text="Killing a job is alarm()+SIGXCPU in the kernel and out of a contract's reach. Decided with contracts on the real code is every hop of the NUMBER that travels from the user file to the alarm: DTEND/DTSTART difference == elapsed time for any span (C08.diff), every ISO spelling of a DURATION reads as its value incl. weeks/days and signs (C18.idiff.strp.*), make_task hands a positive DURATION on as the timeout and otherwise the DUE time as the deadline (C14.make_task.vtodo), the daemon writes the limit as PT<n>S with n = limit rounded up to seconds (C14.vtodoify), and the executor arms alarm() with exactly that many seconds / with due - now before the job starts, kill handler installed, refuses an overdue DUE (now >= due) and never starts the job on a negative limit (C14.echsx); the handler sends SIGXCPU to the job (C14.timeo_cb).",
  level_note="Trusted: libc %d / strtol (recorders capture format and argument), ghost recorder replacing fdprnt.h, fixed-arity stubs for alarm/time/sigaction/kill/setuid...; echsx's phases prep/run/mail/jlog/free_task by recording contracts. Not covered: the kill itself and its timing (kernel), the journal record of the termination, DTEND of a recurring VEVENT through make_task's stream branch.",
  explanation="numeric chain of the limit is covered by discharged contracts hop by hop up to the alarm() argument; delivery of the signal and the journal text are kernel / libc behaviour",
  not_covered=["signal delivery / process kill and its timing", "journal record of the termination (jlog_task)", "make_task's DTEND branch for recurring events (stream construction)"])
O("C14.vtodoify", "C14", "h_C14.c", "h_C14_vtodoify",
  "vtodoify: for every limit 0..400 days the execution request carries one DURATION line, in the form PT<n>S, with n = the limit in ms rounded up to whole seconds",
  ["vtodoify"], solver=["minisat", "kissat", "z3"], timeout={"quick": 600, "thorough": 1800}, unwind=18, replay=False, replay_note="fdprnt.h replaced by recorder",
  assumptions=["fdprnt.h replaced by a ghost recorder in this translation unit (format pointer and first integer argument of the DURATION line)", "libc %d prints the decimal digits of its argument"])

# ------------------------------------------------------------------ C09 / C16 fillers
P("C09", level="proof",
  level_text="Function and loop contracts on the real code. Fillers of evrrul.c - rrul_fill_dly, _wly, _Hly, _Mly (quick) and _Sly (thorough only: 24 min) - with iterators and calendar kernels replaced by the contracts C19 / C01.k discharge and every loop under an in-place inductive loop contract incl. (lexicographic) decreases clauses: for every valid DTSTART, every well-formed BYxxx container state, INTERVAL up to 1000 (dly, Hly, Mly) / 100 (wly) / 64 (Sly), any COUNT/UNTIL all array accesses and shifts are in bounds (incl. the BYHOUR x BYMINUTE x BYSECOND enumeration into the 128-slot cache), at most what was asked for is returned, every loop terminates; in dly and wly one step advances the day cursor by exactly INTERVAL resp. 7*INTERVAL days (functional carry invariant). make_enum (time-of-day arrays, C09.make_enum). The parser side of the assume/guarantee pair: snarf_rrule hands the fillers only well-formed containers with values inside the ranges the filler contracts assume, and an INTERVAL in 1..INT_MAX, whatever numbers the text holds (C09.snarf_rrule.<KEY>, 11 keys). Lookup/iteration termination: C07.find_trno, C19.collect_*.",
  level_note="Trusted: CBMC semantics and DFCC loop-contract instrumentation; libc number reading (stubs return an arbitrary long). Bound: INTERVAL <= 1000 / 100 / 64 in the filler obligations (the invariants carry explicit bounds on the overflowing day cursor; the parser admits up to INT_MAX). Not covered: rrul_fill_yly/mly and their helpers (fill_yly_*, fill_mly_*, clr_poss, shift), the Hijri scales inside the fillers, _ical_pull.",
  not_covered=["rrul_fill_yly / rrul_fill_mly and the fill_yly_*/fill_mly_* helpers, clr_poss, shift", "fillers on a non-Gregorian SCALE", "INTERVAL above 1000 (dly, Hly, Mly) / 100 (wly) / 64 (Sly)", "exactness of the Hly/Mly/Sly step (bounds and termination only)", "the line-level parser _ical_pull"])
P("C16", level="proof",
  level_text="Same filler obligations as C09 with the post-conditions of this property: every occurrence a covered filler (dly, wly, Hly, Mly; Sly in the thorough tier) writes lies within [DTSTART, UNTIL], never more than COUNT or than asked for; Sly additionally strictly increasing (ghost witness pair, inductive invariant over the append-only output) and real date-times. refill: 63 delivered + seed held back, COUNT down by exactly the number delivered, every slot corrected by its zone-offset difference (C16.refill); the proto event of a rule is DTSTART in UTC (C16.make_evrrul). Across refills the order rests on echs_instant_sort (C20).",
  level_note="Trusted as for C09. Not covered: strict order inside the dly/wly/Hly/Mly fillers (bounds only), yearly/monthly fillers, SHIFT/BYEASTER/SCALE extensions.",
  not_covered=["strict order inside rrul_fill_dly/wly/Hly/Mly (only the bounds are proved)", "yearly/monthly fillers and the SHIFT / BYEASTER / SCALE extensions"])
EF = dict(dfcc=True, loop_contracts=True, with_unwind=True,
          replace=["bi447_next", "bui31_next", "bi31_next", "bui63_next", "ymd_get_wday", "__get_ndom"],
          replace_status={"bi447_next": "discharged by C19.bi447_next", "bui31_next": "discharged by C19.bui31_next", "bi31_next": "discharged by C19.bi31_next",
                          "bui63_next": "discharged by C19.bui63_next", "ymd_get_wday": "discharged by C01.k.wday", "__get_ndom": "discharged by C01.k.wday"},
          solver=["minisat"], mem_gb=28, timeout={"quick": 3000, "thorough": 7200}, replay=False, replay_note="callees replaced by contracts, symbolic container states",
          defines=["-DRR_INTER_MAX=64U"])
O("C09.Sly", ["C09", "C16", "C01"], "h_C09.c", "h_C09_Sly",
  "rrul_fill_Sly: memory safe, returns <= nti and <= COUNT, terminates, output strictly increasing, within [DTSTART, UNTIL], real date-times - for every valid DTSTART, every well-formed container state, INTERVAL 1..64 (thorough tier only: 24 min, 14 GB on this machine)",
  ["rrul_fill_Sly"], tiers=["thorough"], **EF)

# ------------------------------------------------------------------ C05
P("C05", level="other",
  level_text="'Print then parse returns the same task' runs through libc formatting and parsing (vsnprintf, strtol, gperf tables), which CBMC has no semantics for, so the text round trip as such is out of reach. Decided with contracts on the real code, with the fd printer replaced by a ghost recorder: every BYMONTH/BYHOUR/BYMINUTE/BYSECOND list written by send_rrul enumerates exactly the set its own container holds (0 and 31..59 included, no value twice); the containers themselves behave as sets (C19); instants and durations round-trip as text (C18); X-ECHS-MAX-SIMUL and X-ECHS-UMASK survive read -> make_task -> write with their 'upped by one' encoding, the event's own value winning over a calendar-level default (C12.max_simul.text, C05.umask.text). Everything else of the property is listed as not covered.",
  level_note="Trusted: ghost recorder replacing fdprnt.h (format pointer + integer argument), libc %u/%d, strtol stub. Bounded: at most 3 values per BYxxx list in C05.send_rrul.sets. Not covered: field mapping of _ical_proc / snarf_fld (calendar-level defaults, LOCATION/SHELL merge), remaining COUNT / next DTSTART of send_evrrul, RDATE/EXDATE lists, escaping, lines near 1 KiB, interned strings.",
  explanation="text round trip is outside CBMC's reach (libc); the set-valued parts of a rule are proved to be written completely, other parts are not covered",
  not_covered=["END:VEVENT merge of calendar-level defaults (known weakness: LOCATION / X-ECHS-SHELL of an event without SETUID are lost)", "send_evrrul: remaining COUNT and next DTSTART per consumption prefix", "RDATE/EXDATE serialisation, BYSETPOS keyword, TZID spelling", "string fields, escaping, interning (intern.c)"])
O("C05.send_rrul.sets", "C05", "h_C05.c", "h_C05_send_rrul_sets",
  "send_rrul: the BYMONTH, BYHOUR, BYMINUTE and BYSECOND lists written are exactly the views of their containers (each iterated with the iterator of its own container type), nothing twice",
  ["send_rrul"], kind="bounded", bound="at most 3 values per list (values symbolic over the whole range)", unwind=6,
  cbmc_flags=["--unwindset", "bui31_next.0:34,bui63_next.0:66"],
  solver=["minisat", "kissat"], timeout={"quick": 900, "thorough": 3600}, replay=False, replay_note="fdprnt.h replaced by recorder")

# ------------------------------------------------------------------ C01 / C17 / C13 manifest texts
P("C01", level="other",
  level_text="The full statement (expansion == RFC 5545 recurrence set for every rule) decomposes into calendar kernels, set builders, steppers, limiters, cut and the refill boundary (DESIGN 4, C01). Discharged on the real evrrul.c / bitint code for all inputs: every calendar kernel the fillers use equals the specification written from ISO 8601 / RFC 5545 (weekday, 28-year table, ISO weeks, n-th weekday of month and year incl. negative and non-existent ordinals, ISO week to date, day-of-year inversions, Easter); the set builders of the YEARLY/MONTHLY fillers, one rule value at a time: BYYEARDAY (fill_yly_yd), BYDAY=nXX in a year / a month (fill_yly_ycw, fill_mly_ymcw), BYWEEKNO+BYDAY (fill_yly_ywd), BYMONTHDAY (fill_mly_ymd, fill_yly_ymd_all_m), plain BYDAY lists (fill_mly_ymd_all_d, fill_yly_yd_all), BYEASTER (C17.eastr) select exactly the days RFC 5545 names, and nothing for days / weeks / ordinals the period does not have; BYSETPOS on small sets (C01.clr_poss, bounded); the BYxxx containers behave as sets with complete ordered iteration (C19); the sub-daily fillers' stepping, filtering and DTSTART/UNTIL/COUNT cut (C09.*ly). The YEARLY/MONTHLY fillers' main loops and the composition into 'equals the RFC set' are not covered.",
  level_note="Trusted: spec_cal.h as the calendar definition (self-tested against libc), CBMC semantics; in the set-builder obligations the +-383 container is replaced by its native one-value behaviour or a bitmap (real container: C19) and each builder is run on one rule value (its loop treats values independently - read, not proved). Known findings KF-C01-ywd-prev-december, KF-C01-ywd-outside-year. Not covered: rrul_fill_yly / rrul_fill_mly main loops (period stepping, tries, SHIFT year adjustment), fill_yly_md_all, refill boundary / restart consistency, composition lemma L-C01.",
  explanation="kernels, containers, set builders and the sub-daily fillers are proved for all inputs; the expansion as a whole is not reached by any discharged obligation",
  not_covered=["rrul_fill_yly / rrul_fill_mly main loops (period stepping, INTERVAL/BYMONTH congruence, SHIFT year adjustment): seeds C09-m1, C16-m3, C17-m3", "several values per BYxxx part interacting inside one builder call", "refill boundary (restart consistency)", "composition lemma L-C01 (prose)"])
P("C17", level="other",
  level_text="BYEASTER: easter_get_yday equals the anonymous Gregorian computus (Meeus/Jones/Butcher) for every year 1901..2099 (C17.easter), and fill_yly_eastr selects exactly the day N days from Easter Sunday for every N in -366..366 whenever that day lies inside the year (C17.eastr; outside the year: known finding KF-C17-easter-outside-year). SHIFT=N: shift() moves any date by exactly N calendar days and files it under the year it falls in (C17.shift.days.n31/.n92: N up to 92 days; day-number spec). SHIFT=NB: from a business day the N-th business day after/before, from a weekend the adjacent business day in the direction of the shift then N or N-1 business days on, -0B back to Friday (C17.shift.bdays.n6: N = 0..6, both signs and direction flags).",
  level_note="Trusted: spec_cal.h computus and day numbers (self-tested at setup); the +-383 container replaced by its native one-value behaviour (real container: C19), one candidate per call. Stated bound: business-day amounts 0..6 (larger N: no answer from any back end in 15 min); calendar-day amounts up to 92 (up to 366: no usable answer within 45 min). Not covered: snarf_shift text parsing, combined day+business-day shifts, the start-year adjustment for shifts in rrul_fill_yly (seed C17-m3).",
  explanation="the Easter clause and the calendar-day SHIFT clause are proved for all stated inputs; the business-day clause for amounts up to 6; the fillers' use of them is not covered",
  not_covered=["business-day shifts of more than 6 days", "snarf_shift text parsing, combined SHIFT=x,yB", "rrul_fill_yly's start-year adjustment for shifted rules (seed C17-m3)", "BYEASTER days falling into a neighbouring year (known finding)"])
P("C13", not_applicable="executor output routing is kernel/process behaviour (pipes, splice/tee/sendfile, exec, signals, waitpid): no function contract within CBMC's reach can express 'every byte the job writes arrives exactly once'; proving a model of the kernel would be a different technique family (DESIGN.md section 7)")
O("C16.refill", ["C16", "C01", "C05", "C09"], "h_C16.c", "h_C16_refill",
  "refill at the 64-occurrence boundary: 63 delivered and the 64th held back as the next seed (never lost, never twice), shorter batches end the stream, COUNT decreases by exactly the number delivered; for every FREQ and COUNT",
  ["refill"], solver=["minisat", "kissat"], timeout={"quick": 600, "thorough": 1800}, unwind=66, replay=False, replay_note="filler stubs use nondet results",
  assumptions=["the seven fillers are represented by a stub with their contract (n <= asked, n <= COUNT); zone offset, rescale and sort by identity stubs"])
# C05.send_task.limits (harness h_C05_send_task_limits exists) is not registered: CBMC's model of variadic calls does not
# apply the default argument promotions to bit-field arguments (t->max_simul is unsigned:6), so va_arg(ap, int) in the
# recorder reads out of bounds - a tool limit, the failure is spurious.
O("C09.dly", ["C09", "C16", "C01"], "h_C09.c", "h_C09_dly",
  "rrul_fill_dly (Gregorian scale): memory safe incl. the time-of-day enumeration (never beyond the 128-slot cache), returns <= nti and <= COUNT, every loop terminates, occurrences within [DTSTART, UNTIL], and one step advances the day cursor by exactly INTERVAL days (the month/year carry keeps the denoted day) - for every valid DTSTART, every well-formed container state, INTERVAL 1..1000",
  ["rrul_fill_dly"], dfcc=True, loop_contracts=True, with_unwind=True,
  replace=["bi447_next", "bui31_next", "bi31_next", "echs_scale_ndim", "echs_scale_wday", "echs_instant_rescale", "make_enum", "rrul_fill_wly"],
  replace_status={"bi447_next": "discharged by C19.bi447_next", "bui31_next": "discharged by C19.bui31_next", "bi31_next": "discharged by C19.bi31_next",
                  "echs_scale_ndim": "discharged for the Gregorian scale by C15.dispatch/C15.greg", "echs_scale_wday": "discharged by C15.dispatch/C15.greg",
                  "echs_instant_rescale": "identity on the Gregorian scale (C15.rescale.*)", "make_enum": "discharged by C09.make_enum (1..24/60/61 entries) for rules the parser lets through (C09.snarf_rrule.*)", "rrul_fill_wly": "trusted: returns <= nti (not discharged)"},
  solver=["minisat", "kissat", "cadical"], mem_gb=28, timeout={"quick": 3000, "thorough": 7200}, replay=False, replay_note="callees replaced by contracts",
  defines=["-DRR_INTER_MAX=1000U"])
# C17.shift.days (harness h_C17_shift_days exists): out of memory / no answer at |N| <= 62 (both halves of shift() and the
# +-383 container's insert path are in one formula) - not registered
for var, defs in (("replace", ["-DHOME_SAME"]), ("new", [])):
    O("C11.inject.%s" % var, ["C11", "C12"], "h_C11.c", "h_C11_inject",
      "_inject_task1 (%s): objects without occurrences refused; a UID queued by another user is never replaced, stopped or freed; same owner replaces in place keeping the running count; a new UID is queued, owned by and run as the requester; no other task touched" % ("UID already queued" if var == "replace" else "UID not queued"),
      ["_inject_task1", "make_task", "get_task", "compl_uid", "compl_owner"], kind="bounded", bound="table of 16 slots", defines=defs, **E11)
O("C11.cmd_ical", ["C11", "C06"], "h_C11b.c", "h_C11_cmd_ical",
  "cmd_ical over every script of up to 3 schedule/cancel instructions and outcomes: each instruction is carried out once and gets exactly one reply that says what happened to it; the user is noted for checkpointing iff something succeeded",
  ["cmd_ical"], dfcc=True, replace=["_inject_task1", "_eject_task1", "cmd_ical_rpl", "add_chkpnt"],
  replace_status={"_inject_task1": "outcome scripted here; behaviour discharged by C11.inject.*", "_eject_task1": "outcome scripted here; behaviour discharged by C11.eject",
                  "cmd_ical_rpl": "recording contract (reply text not covered)", "add_chkpnt": "recording contract"},
  kind="bounded", bound="up to 3 instructions per request", unwind=6,
  solver=["minisat", "kissat"], timeout={"quick": 600, "thorough": 1800}, replay=False, replay_note="callees replaced by contracts")
O("C11.cmd_http", "C11", "h_C11c.c", "h_C11_cmd_http",
  "cmd_http (listing without a task filter) for every non-root requester, every uid named in the request path and every 4-slot queue: only the requester's own queue file is read, only his own tasks are listed, and all of them",
  ["cmd_http"], dfcc=True, replace=["chkpntedp", "echs_http_send_sched"],
  replace_status={"chkpntedp": "assumed false (no pending checkpoint)", "echs_http_send_sched": "recording contract (text not covered)"},
  kind="bounded", bound="queue of 4 slots; requests without a tuid= filter", unwind=20,
  solver=["minisat", "kissat"], timeout={"quick": 600, "thorough": 1800}, replay=False, replay_note="callees replaced by contracts, fault-injecting stubs")
O("C05.send_evrrul", "C05", "h_C16.c", "h_C05_send_evrrul",
  "send_evrrul for a task with two rules at every consumption state (cache read positions, fills, seeds symbolic): DTSTART written = earliest occurrence not yet consumed over both rules, COUNT increment written = cached occurrences of this rule not yet consumed",
  ["send_evrrul"], dfcc=True, replace=["send_ev", "send_rrul"],
  replace_status={"send_ev": "recording contract", "send_rrul": "recording contract (its lists: C05.send_rrul.sets)"},
  kind="bounded", bound="two sibling rules", unwind=20, solver=["minisat", "kissat"], timeout={"quick": 600, "thorough": 1800}, replay=False, replay_note="callees replaced by contracts")
O("C05.make_obint", ["C05", "C11"], "h_C05i.c", "h_C05_make_obint",
  "make_obint (string area of interned UIDs), two consecutive insertions of lengths 1..9 at fill levels 0..12: the handle encodes offset and length, the second string never overlaps the first or its terminator, the first keeps its bytes and its NUL",
  ["make_obint"], kind="bounded", bound="string lengths 1..9, area of 64 bytes", solver=["minisat", "kissat"], timeout={"quick": 600, "thorough": 1800}, unwind=12,
  native_srcs=["hash.c"])
O("C03.registry", "C03", "h_C03e.c", "h_C03_registry",
  "echse.c add_strm / rem_strm (the streams `echse unroll` muxes): after removing any one of up to 4 registered streams and adding another, every other stream and the new one are still registered, the removed one is not",
  ["add_strm", "rem_strm"], kind="bounded", bound="up to 4 registered streams", unwind=8, solver=["minisat", "kissat"],
  timeout={"quick": 600, "thorough": 1800}, replay=False, replay_note="echse.c needs the whole CLI to link")
O("C07.tzob_zif", "C07", "h_C08_epoch.c", "h_C07_tzob_zif",
  "__tzob_zif (most-frequently-used cache of open zone files): after any history of 3 lookups over 3 zones the file returned for a zone is that zone's own file",
  ["__tzob_zif"], dfcc=True, replace=["echs_zone"], replace_status={"echs_zone": "contract: a zone object names its zone (interning not covered here)"},
  kind="bounded", bound="3 zones, 4 consecutive lookups", unwind=20, solver=["minisat", "kissat"],
  timeout={"quick": 600, "thorough": 1800}, replay=False, replay_note="zif_open/zif_close stubs",
  assumptions=["zif_open/zif_close replaced by stubs that identify a zone file by its name"])
O("C02.instant_soup", ["C02", "C07"], "h_C16.c", "h_C02_instant_soup",
  "instant_soup (RDATE/EXDATE values): a timed value with its own TZID is converted to UTC with its own zone; a value without TZID is taken unchanged",
  ["instant_soup"], solver=["minisat", "kissat"], timeout={"quick": 600, "thorough": 1800}, unwind=6, replay=False, replay_note="echs_instant_utc stub records its zone argument",
  assumptions=["echs_instant_utc replaced by a recording stub (the conversion itself: C07.offs / C07.utc_local)"])
O("C16.make_evrrul", ["C16", "C07"], "h_C16.c", "h_C16_make_evrrul",
  "__make_evrrul: the proto event is DTSTART in UTC and the proto offset is the zone offset at that UTC instant, for every zoned DTSTART",
  ["__make_evrrul"], solver=["minisat", "kissat"], timeout={"quick": 600, "thorough": 1800}, unwind=6, replay=False, replay_note="zone stubs",
  cbmc_flags=["--malloc-may-fail", "--malloc-fail-null"],
  assumptions=["echs_instant_utc / echs_tzob_offs replaced by stubs in which the UTC and the wall-clock reading of an instant get different offsets"])
for fn, ent in (("BinaryFirst", "h_C20_binary_first"), ("BinaryLast", "h_C20_binary_last")):
    O("C20.%s" % fn, "C20", "h_C20.c", ent,
      "%s (binary search of the sort) over an array of any length up to 2^20: reads only inside the range, returns an index in [start, end], terminates (inductive loop contract), writes nothing" % fn,
      [fn], dfcc=True, enforce=fn, loop_contracts=True, solver=["minisat", "kissat"], timeout={"quick": 600, "thorough": 1800}, replay=False, replay_note="frame variant (is_fresh inputs)")
for oid, fn, ent, extra, defs in (("MergeInPlace.rev", "MergeInPlace", "h_C20_merge_in_place", "rotation by three reversals (no cache)", ["-DMERGE_CSZ=0", "-DMERGE_L=2"]),
                      ("MergeInPlace.cache", "MergeInPlace", "h_C20_merge_in_place", "rotation through the cache", ["-DMERGE_CSZ=2", "-DMERGE_L=2"]),
                      ("MergeExternal", "MergeExternal", "h_C20_merge_external", "A copied to the cache by the caller", []),
                      ("MergeInternal", "MergeInternal", "h_C20_merge_internal", "A swapped into the internal buffer by the caller; the buffer keeps its own elements in some order", [])):
    O("C20.%s" % oid, "C20", "h_C20e.c", ent,
      "%s of the event sort on two adjacent sorted ranges of 0..%d symbolic events each (%s): the result is ordered, holds exactly the inputs moved whole, equal elements keep their order, nothing else moves" % (fn, 2 if defs else 3, extra),
      [fn, "Rotate", "Reverse", "BlockSwap", "BinaryFirst", "BinaryLast"], kind="bounded", bound="each range 0..%d elements" % (2 if defs else 3), defines=defs,
      unwind=5, cbmc_flags=["--unwindset", "h_merge_setup.0:11,h_merge_check.0:8,h_merge_frame.0:11,h_C20_merge_internal.1:11"],
      assumptions=["memcpy/memmove modelled as element-wise copies of whole events (CBMC's own models run out of memory on a symbolic length); the native replay uses libc's"],
      tiers=["thorough"] if defs else ["quick", "thorough"],
      mem_gb=28, solver=["minisat", "kissat", "cadical"], timeout={"quick": 900, "thorough": 2400}, native_srcs=["instant.c"])
O("C14.echsx", ["C14", "C12"], "h_C14x.c", "h_C14_echsx",
  "echsx(): with a DURATION limit the alarm is armed, kill handler installed, before the job starts, with the limit rounded up to whole seconds; with a DUE time the request is refused when now >= due (or the clock cannot be read) and otherwise armed with due - now; a negative limit, a missing command and --no-run never start the job; for every limit up to 2^32-1 s, every clock value and every failure of the credential / signal calls",
  ["echsx", "set_timeout", "unblock_sig", "block_sigs", "unblock_sigs"], dfcc=True,
  replace=["prep_task", "run_task", "mail_task", "jlog_task", "free_task"],
  replace_status={"prep_task": "recording contract (not discharged: pipes, files)", "run_task": "recording contract (not discharged: spawn, event loop)",
                  "mail_task": "recording contract (not discharged)", "jlog_task": "recording contract (not discharged)", "free_task": "recording contract (not discharged)"},
  solver=["minisat", "kissat", "cadical"], timeout={"quick": 1800, "thorough": 3600}, replay=False, replay_note="system calls stubbed, phases replaced by contracts",
  assumptions=["alarm/time/sigaction/sigprocmask/kill/setuid/setgid/getpw*/umask/snprintf replaced by fixed-arity stubs (every failure return allowed)",
               "echs_instant_to_epoch replaced by a symbolic value (discharged separately: C08.epoch.to)",
               "logging macros pre-empted (variadic)", "main() of echsx.c renamed, never called"])
O("C14.timeo_cb", ["C14"], "h_C14x.c", "h_C14_timeo_cb",
  "timeo_cb (the SIGALRM handler echsx installs): sends SIGXCPU to the running job, exactly once",
  ["timeo_cb", "block_sigs"], solver=["minisat", "kissat"], timeout={"quick": 600, "thorough": 1800}, replay=False, replay_note="system calls stubbed")
EM = dict(unwind=6, solver=["minisat", "kissat", "cadical"], timeout={"quick": 1800, "thorough": 3600}, replay=False, replay_note="number reading and printer stubbed",
          cbmc_flags=["--malloc-may-fail", "--malloc-fail-null"],
          assumptions=["strtol replaced by a stub returning an arbitrary long and consuming the whole value (libc number reading trusted)",
                       "fdprnt.h replaced by a fixed-arity recorder of the X-ECHS-MAX-SIMUL / X-ECHS-UMASK lines (libc %d/%o formatting trusted)",
                       "echs_instant_to_utc is the identity (instants without TZID)"])
O("C12.max_simul.text", ["C12", "C05"], "h_C14m.c", "h_C12_max_simul_text",
  "X-ECHS-MAX-SIMUL:N read by snarf_fld over any calendar-level default, made a task by make_task and written by send_task: the event's own N (0..62) is held and written as N; absent or out of range = the calendar default, else unlimited and not written - for every number and every default",
  ["snarf_fld", "make_task", "send_task"], **EM)
O("C05.umask.text", ["C05"], "h_C14m.c", "h_C05_umask_text",
  "X-ECHS-UMASK read, made a task, written: the same value for 0..0777; absent or out of range = unset, not written - for every number",
  ["snarf_fld", "make_task", "send_task"], **EM)
# C02.date_lines (harness h_C02_date_lines in h_C14m.c, written for fix ea68475): no answer in 900 s on three back ends (dt_strp stubbed, two concrete lines) -- not registered
O("C14.make_task.vtodo", ["C14"], "h_C14m.c", "h_C14_make_task_vtodo",
  "make_task on an execution request (VTODO without DTSTART): a positive DURATION becomes the timeout unchanged, otherwise a DUE time becomes the deadline unchanged, otherwise no limit - for every duration and every DUE value",
  ["make_task"], **EM)
for nmax, uw, tiers in ((31, 4, ["quick", "thorough"]), (92, 6, ["quick", "thorough"])):	# 366 days (unwind 16): no usable answer within 45 min
    O("C17.shift.days.n%d" % nmax, ["C17", "C16"], "h_C17s.c", "h_C17_shift_days",
      "shift() with SHIFT=N (calendar days) on any date 1902..2098 and any N in -%d..%d, N != 0: one date in, one date out, filed under the year it falls in (same / previous / next), exactly N days away from the input (day-number spec)" % (nmax, nmax),
      ["shift", "unpack_cand", "pack_cand", "__get_ndom"], unwind=uw, defines=["-DSHIFT_NMAX=%d" % nmax], tiers=tiers,
      solver=["minisat", "kissat", "cadical"], timeout={"quick": 900, "thorough": 3600},
      native_srcs=[x for x in LIBECHSE if x != "evrrul.c"], native_libs=["-lltdl", "-lm"],
      assumptions=["ass_bi383 / bi383_next replaced by their native-mode behaviour for a container of at most one value (the real ones: C19.ass_bi383, C19.bi383_next); the native replay links the real bitint.c",
                   "one candidate per call: the candidate loop treats each member independently (read, not proved)",
                   "the backward-goto month walk is unwound %d times with unwinding assertions on: complete for the stated N" % uw])
for bmax, uw, tiers in ((6, 3, ["quick", "thorough"]),):
    O("C17.shift.bdays.n%d" % bmax, ["C17"], "h_C17s.c", "h_C17_shift_bdays",
      "shift() with SHIFT=NB / -NB (business days, N = 0..%d, both direction flags) on any date 1902..2098: the result is a business day; from a business day it is exactly the N-th business day after / before; from a weekend it is the adjacent business day in the direction of the shift moved on by N or N - 1 business days (-0B: back to Friday)" % bmax,
      ["shift", "unpack_cand", "pack_cand", "__get_ndom", "ymd_get_wday"], unwind=uw, defines=["-DSHIFT_BMAX=%d" % bmax], tiers=tiers,
      solver=["minisat", "kissat", "cadical"], timeout={"quick": 900, "thorough": 3600},
      native_srcs=[x for x in LIBECHSE if x != "evrrul.c"], native_libs=["-lltdl", "-lm"],
      assumptions=["ass_bi383 / bi383_next replaced by their native-mode behaviour for a container of at most one value (the real ones: C19.ass_bi383, C19.bi383_next); the native replay links the real bitint.c",
                   "one candidate per call: the candidate loop treats each member independently (read, not proved)",
                   "whether the move off a weekend counts as one of the N business days is left open (both accepted): the property's text does not fix it",
                   "the backward-goto month walk is unwound %d times with unwinding assertions on: complete for the stated N" % uw])
EE = dict(unwind=4, solver=["minisat", "kissat", "cadical"], timeout={"quick": 1800, "thorough": 3600},
          native_srcs=[x for x in LIBECHSE if x != "evrrul.c"], native_libs=["-lltdl", "-lm"],
          assumptions=["ass_bi383 / bi383_next replaced by their native-mode behaviour for a container of at most one value (the real ones: C19.ass_bi383, C19.bi383_next); the native replay links the real bitint.c",
                       "one offset per call: the offset loop treats each member independently (read, not proved)", "no BYMONTH/BYMONTHDAY/BYDAY mask"])
O("C17.eastr", ["C17"], "h_C17s.c", "h_C17_fill_yly_eastr",
  "fill_yly_eastr: for every year 1901..2099 and every N in -366..366: whatever is selected is a real date of the year exactly N days from Easter Sunday (computus spec), and one day is selected whenever the target lies inside the year",
  ["fill_yly_eastr", "easter_get_yday", "yd_to_md", "md_match_p"], **EE)
O("C17.eastr.outside", ["C17"], "h_C17s.c", "h_C17_fill_yly_eastr",
  "fill_yly_eastr when the day N days from Easter lies in a neighbouring year (region of known finding KF-C17-easter-outside-year)",
  ["fill_yly_eastr"], defines=["-DREGION_EASTER_OUTSIDE_YEAR"], finding="KF-C17-easter-outside-year", **EE)
O("C01.fill_yly_yd", ["C01"], "h_C17s.c", "h_C01_fill_yly_yd",
  "fill_yly_yd (BYYEARDAY=N in a YEARLY rule): for every year 1901..2099 and every N in +-1..366 exactly the N-th day of the year is selected (from the end for negative N), and nothing when the year has no such day (366 / -366 in a common year)",
  ["fill_yly_yd", "yd_to_md", "yd_get_wday"], **EE)
O("C01.fill_yly_ycw", ["C01"], "h_C17s.c", "h_C01_fill_yly_ycw",
  "fill_yly_ycw (BYDAY=nXX in a YEARLY rule): for every year, every weekday and every n in +-1..53 exactly the n-th (n-th last) such weekday of the year is selected, and nothing when the year has only 52 of them",
  ["fill_yly_ycw", "ycw_get_yday", "yd_to_md", "unpack_cd"], drop_checks=["--undefined-shift-check"], native_cflags=["-fno-sanitize=shift"], **EE)
O("C01.fill_yly_ywd", ["C01"], "h_C17s.c", "h_C01_fill_yly_ywd",
  "fill_yly_ywd (BYWEEKNO=W;BYDAY=XX in a YEARLY rule): for every year, every W in +-1..53 and every weekday: nothing when the year has no such ISO week; exactly weekday XX of ISO week W when that day lies inside the calendar year",
  ["fill_yly_ywd", "ywd_to_md", "ywd_get_yday", "get_isowk", "yd_to_md"], **EE)
O("C01.fill_yly_ywd.outside", ["C01"], "h_C17s.c", "h_C01_fill_yly_ywd",
  "fill_yly_ywd when the selected day of ISO week W lies in a neighbouring calendar year (region of known finding KF-C01-ywd-outside-year)",
  ["fill_yly_ywd", "ywd_to_md"], defines=["-DREGION_YWD_OUTSIDE_YEAR"], finding="KF-C01-ywd-outside-year", **EE)
O("C01.fill_mly_ymd", ["C01", "C09"], "h_C17s.c", "h_C01_fill_mly_ymd",
  "fill_mly_ymd (BYMONTHDAY=N with optional plain BYDAY weekdays, Gregorian scale): for every year, month, N in +-1..31 and weekday mask exactly the N-th (N-th last) day of the month is selected when the month has it and its weekday is allowed, nothing otherwise - BYMONTHDAY beyond the month length included",
  ["fill_mly_ymd"], replace_status={"echs_scale_ndim": "macro with the spec value; discharged for the Gregorian scale by C15.dispatch/C15.greg", "echs_scale_wday": "likewise"}, **EE)
O("C01.fill_mly_ymcw", ["C01"], "h_C17s.c", "h_C01_fill_mly_ymcw",
  "fill_mly_ymcw (BYDAY=nXX in a month): for every year, month, weekday and n in +-1..5 exactly the n-th (n-th last) such weekday of the month is selected, nothing when the month has only four",
  ["fill_mly_ymcw", "ymcw_get_dom", "unpack_cd"], drop_checks=["--undefined-shift-check"], native_cflags=["-fno-sanitize=shift"], **EE)
O("C01.clr_poss", ["C01"], "h_C17s.c", "h_C01_clr_poss",
  "clr_poss (BYSETPOS=P on the candidate days of one period): of 0..3 candidates exactly the P-th (P-th last for negative P) is kept, nothing when the set is smaller",
  ["clr_poss"], kind="bounded", bound="candidate set of 0..3 days, one BYSETPOS value in +-1..4", **dict(EE, unwind=6))
ED = dict(solver=["minisat", "kissat", "cadical"], timeout={"quick": 1800, "thorough": 3600}, replay=False, replay_note="container replaced by a bitmap",
          assumptions=["ass_bi383 replaced by a 384-bit bitmap writer (the real one: C19.ass_bi383); membership is decided through a symbolic witness value, both directions",
                       "echs_scale_ndim / echs_scale_wday replaced by the Gregorian spec values (C15.dispatch / C15.greg)",
                       "loops over the days of a month / year unwound completely (unwinding assertions on)"])
O("C01.fill_mly_ymd_all_d", ["C01"], "h_C01d.c", "h_C01_fill_mly_ymd_all_d",
  "fill_mly_ymd_all_d: for every year, month and weekday mask exactly the days of the month on an allowed weekday are selected",
  ["fill_mly_ymd_all_d", "inc_wd"], unwind=33, **ED)
O("C01.fill_yly_ymd_all_m", ["C01", "C09"], "h_C01d.c", "h_C01_fill_yly_ymd_all_m",
  "fill_yly_ymd_all_m: for every year, N in +-1..31 and weekday mask exactly the N-th (N-th last) day of every month that has one is selected",
  ["fill_yly_ymd_all_m"], unwind=14, **ED)
O("C01.fill_yly_md_all", ["C01"], "h_C01d.c", "h_C01_fill_yly_md_all",
  "fill_yly_md_all: for every year, one or two listed months and every weekday mask exactly the days of the listed months on a listed weekday are selected",
  ["fill_yly_md_all", "inc_wd"], unwind=33, tiers=["thorough"], **ED)
O("C01.fill_yly_yd_all", ["C01"], "h_C01d.c", "h_C01_fill_yly_yd_all",
  "fill_yly_yd_all: for every year and weekday mask exactly the days of the year on a listed weekday are selected",
  ["fill_yly_yd_all", "inc_md", "inc_wd"], unwind=368, **ED)
O("C17.snarf_shift", ["C17"], "h_C09p.c", "h_C17_snarf_shift",
  "snarf_shift: SHIFT=N encodes N calendar days, SHIFT=NB encodes N business days with the direction as written - for every N in -366..366, 0B and -0B included",
  ["snarf_shift", "echs_shift_dvalue", "echs_shift_bvalue", "echs_shift_neg_p", "echs_shift_bday_p"], defines=['-DRRKEY="BYHOUR"', "-DRRK=1"],
  unwind=8, solver=["minisat", "kissat", "cadical"], timeout={"quick": 600, "thorough": 1800}, replay=False, replay_note="number reading stubbed",
  drop_checks=["--undefined-shift-check"],
  assumptions=["strtol replaced by a stub returning an arbitrary long and stepping over the digits (libc number reading trusted); the text's leading '-' is tied to the value's sign, free for 0",
               "left shift of a negative day count (formally undefined, arithmetic on every supported compiler) not checked"])
O("C09.gcd12", ["C09", "C01"], "h_C01k.c", "h_C09_gcd12",
  "gcd12 (MONTHLY;INTERVAL;BYMONTH reachability): for every start month, BYMONTH month and INTERVAL 1..INT_MAX the filler's test '(m + 12 - v) % gcd12(INTERVAL) == 0' holds iff v is reached from m in steps of INTERVAL months - an unreachable month ends the stream, a reachable one is never refused",
  ["gcd12"], unwind=14, solver=["minisat", "kissat", "cadical"], timeout={"quick": 600, "thorough": 1800},
  native_srcs=[x for x in LIBECHSE if x != "evrrul.c"], native_libs=["-lltdl", "-lm"],
  assumptions=["the test expression is quoted from rrul_fill_mly (one line); the filler's main loop itself is not under contract"])
SHL = []
for ds in (0, 1, -1):
    SHL.append((ds, 0, 0, 0, 0))
    for ng in (0, 1):
        for bz, iv in ((1, 1), (0, 0), (0, 1)):
            SHL.append((ds, 1, ng, bz, iv))
for ds, bp, ng, bz, iv in SHL:
    if ds == 0 and bp == 0:
        continue
    if not (ds == 0 and bz == 1):
        continue  # layouts with a symbolic amount: no answer within 10 min on any back end (not registered)
    lay = ("%sd" % {0: "", 1: "+", -1: "-"}[ds] if ds else "") + ("," if ds and bp else "") + (("%s%sB%s" % ("-" if ng else "+", "0" if bz else "b", ("-" if ng else "+") if (iv and not bz) else "")) if bp else "")
    O("C05.shift.text.%s" % lay.replace(",", "_").replace("+", "p").replace("-", "m"), ["C05", "C17"], "h_C05s.c", "h_C05_shift_text",
      "SHIFT written by send_rrul and read back by snarf_shift is the same shift, layout '%s' (d = 1..366 days, b = 1..366 business days): for every amount" % lay,
      ["send_rrul", "snarf_shift"], unwind=12, solver=["minisat", "kissat", "cadical"], timeout={"quick": 600, "thorough": 1800}, replay=False, replay_note="printer and number reading stubbed",
      defines=["-DSH_DSIGN=%d" % ds, "-DSH_BPART=%d" % bp, "-DSH_NEG=%d" % ng, "-DSH_BZERO=%d" % bz, "-DSH_INV=%d" % iv],
      drop_checks=["--undefined-shift-check"],
      assumptions=["fdprnt.h replaced by a recorder of the SHIFT part (characters, a placeholder digit and the value for every %d / %u): libc formatting trusted",
                   "strtol replaced by a stub stepping over an optional sign and the digits and returning the recorded values in order: libc number reading trusted",
                   "left shifts of negative day counts (formally undefined, arithmetic on every supported compiler) not checked"])
O("C09.make_enum", ["C09"], "h_C09e.c", "h_C09_make_enum",
  "make_enum (the time-of-day arrays every filler indexes): for every BYHOUR within 0..23, BYMINUTE within 0..59, BYSECOND within 0..60 and every DTSTART time it writes inside its three arrays, yields 1..24 / 1..60 / 1..61 entries, each a member of its BYxxx set (DTSTART's value when the set is empty), strictly increasing; the loops terminate",
  ["make_enum"], dfcc=True, loop_contracts=True, replace=["bui31_next", "bui63_next"],
  replace_status={"bui31_next": "discharged by C19.bui31_next", "bui63_next": "discharged by C19.bui63_next"},
  solver=["minisat", "kissat", "cadical"], timeout={"quick": 1800, "thorough": 3600}, replay=False, replay_note="iterators replaced by contracts")
for k, (key, what) in enumerate((("BYMONTH", "1..12"), ("BYHOUR", "0..23"), ("BYMINUTE", "0..59"), ("BYSECOND", "0..60"), ("INTERVAL", "1..INT_MAX"), ("BYMONTHDAY", "+-1..31"), ("BYWEEKNO", "+-1..53"),
                               ("BYYEARDAY", "+-1..366"), ("BYSETPOS", "+-1..366"), ("BYEASTER", "-366..366"), ("BYDAY", "ordinals -53..53 with MO/TU/SU"))):
    O("C09.snarf_rrule.%s" % key, ["C09"], "h_C09p.c", "h_C09_snarf_rrule",
      "snarf_rrule: whatever three numbers stand behind %s, the rule's containers stay well-formed and hold exactly the listed values within %s - the precondition of C09.make_enum and the filler obligations" % (key, what),
      ["snarf_rrule", "ass_bui31", "ass_bui63", "ass_bi31", "ass_bi63", "ass_bi383", "ass_bi447", "snarf_wday", "__evrrul_key"], defines=['-DRRKEY="%s"' % key, "-DRRK=%d" % k],
      unwind=40, solver=["minisat", "kissat", "cadical"], timeout={"quick": 1800, "thorough": 3600},
      native_srcs=[x for x in LIBECHSE if x != "evical.c"], native_libs=["-lltdl", "-lm"],
      # pack_cd() left-shifts a negative ordinal (formally undefined, every supported compiler shifts arithmetically);
      # the property is about memory safety and termination, so that check is not part of this obligation
      drop_checks=["--undefined-shift-check"] if key == "BYDAY" else [], native_cflags=["-fno-sanitize=shift"] if key == "BYDAY" else [],
      assumptions=["strtol/strtoul/atol replaced by stubs returning an arbitrary long and stepping over the digits (libc number reading trusted)",
                   "rule text is the concrete layout FREQ=DAILY;%s=n,n,n with symbolic values n" % key])
O("C09.wly", ["C09", "C16", "C01"], "h_C09.c", "h_C09_wly",
  "rrul_fill_wly (Gregorian scale): memory safe incl. the weekday-increment table and the time-of-day enumeration, returns <= nti and <= COUNT, every loop terminates, occurrences within [DTSTART, UNTIL] - for every valid DTSTART, every well-formed container state, and one step advances the day cursor by exactly 7 * INTERVAL days (the month/year carry keeps the denoted day), INTERVAL 1..100",
  ["rrul_fill_wly"], dfcc=True, loop_contracts=True, with_unwind=True,
  replace=["bi447_next", "bui31_next", "echs_scale_ndim", "echs_scale_wday", "echs_instant_rescale", "make_enum"],
  replace_status={"bi447_next": "discharged by C19.bi447_next", "bui31_next": "discharged by C19.bui31_next",
                  "echs_scale_ndim": "discharged for the Gregorian scale by C15.dispatch/C15.greg", "echs_scale_wday": "discharged by C15.dispatch/C15.greg",
                  "echs_instant_rescale": "identity on the Gregorian scale (C15.rescale.*)", "make_enum": "discharged by C09.make_enum (1..24/60/61 entries) for rules the parser lets through (C09.snarf_rrule.*)"},
  solver=["minisat", "kissat", "cadical"], mem_gb=28, timeout={"quick": 3000, "thorough": 7200}, replay=False, replay_note="callees replaced by contracts",
  defines=["-DRR_INTER_MAX=100U"])
O("C09.Hly", ["C09", "C16", "C01"], "h_C09.c", "h_C09_Hly",
  "rrul_fill_Hly: memory safe incl. the minute/second enumeration and the BYYEARDAY walk, returns <= nti and <= COUNT, every loop terminates (weekday stays in Mon..Sun, the cursor strictly advances), occurrences within [DTSTART, UNTIL] - for every valid DTSTART, every well-formed container state, INTERVAL 1..1000 (steps of up to 41 days)",
  ["rrul_fill_Hly"], dfcc=True, loop_contracts=True, with_unwind=True,
  replace=["bi447_next", "bi383_next", "bui31_next", "bi31_next", "ymd_get_wday", "__get_ndom", "make_enum"],
  replace_status={"bi447_next": "discharged by C19.bi447_next", "bi383_next": "discharged by C19.bi383_next", "bui31_next": "discharged by C19.bui31_next", "bi31_next": "discharged by C19.bi31_next",
                  "ymd_get_wday": "discharged by C01.k.wday", "__get_ndom": "discharged by C01.k.wday", "make_enum": "discharged by C09.make_enum (1..24/60/61 entries) for rules the parser lets through (C09.snarf_rrule.*)"},
  solver=["minisat"], mem_gb=28, timeout={"quick": 3000, "thorough": 7200}, replay=False, replay_note="callees replaced by contracts",
  defines=["-DRR_INTER_MAX=1000U"])
O("C09.Mly", ["C09", "C16", "C01"], "h_C09.c", "h_C09_Mly",
  "rrul_fill_Mly: memory safe incl. the second enumeration, returns <= nti and <= COUNT, every loop terminates, occurrences within [DTSTART, UNTIL] - for every valid DTSTART, every well-formed container state, INTERVAL 1..1000",
  ["rrul_fill_Mly"], dfcc=True, loop_contracts=True, with_unwind=True,
  replace=["bi447_next", "bui31_next", "bi31_next", "bui63_next", "ymd_get_wday", "__get_ndom", "make_enum"],
  replace_status={"bi447_next": "discharged by C19.bi447_next", "bui31_next": "discharged by C19.bui31_next", "bi31_next": "discharged by C19.bi31_next", "bui63_next": "discharged by C19.bui63_next",
                  "ymd_get_wday": "discharged by C01.k.wday", "__get_ndom": "discharged by C01.k.wday", "make_enum": "discharged by C09.make_enum (1..24/60/61 entries) for rules the parser lets through (C09.snarf_rrule.*)"},
  solver=["minisat", "kissat", "cadical"], mem_gb=28, timeout={"quick": 3000, "thorough": 7200}, replay=False, replay_note="callees replaced by contracts",
  defines=["-DRR_INTER_MAX=1000U"])
