/* h_C05i.c -- intern.c: interned strings (task UIDs) stay intact and
 * NUL-terminated when further strings are interned */
#include "h_common.h"
#include <stdlib.h>
#include <string.h>
#include "intern.c"

#define OBZ	64U	/* CBMC cannot digest memcpy of symbolic length into large objects */
void h_C05_make_obint(void)
{
	IN_RANGE(size_t, start, 0, 12);	/* fill level of the string area, a multiple of 4 */
	IN_RANGE(size_t, len1, 1, 9);
	IN_RANGE(size_t, len2, 1, 9);
	IN_RANGE(size_t, w, 0, 8);		/* witness byte of the first string */
	char *a = malloc(len1), *b = malloc(len2);
	ASSUME(a != NULL && b != NULL && (start & 3U) == 0U);
	obs = malloc(OBZ);
	ASSUME(obs != NULL);
	obz = OBZ, obn = start;
	/* the unused part of the area is zero (recalloc clears it); used here at the byte behind the first string */
	ASSUME(obs[start + len1] == '\0');
	/* the strings themselves contain no NUL */
	ASSUME(w >= len1 || a[w] != '\0');
	char aw = w < len1 ? a[w] : '\0';
	obint_t o1 = make_obint(a, len1);
	obint_t o2 = make_obint(b, len2);
	size_t off1 = (size_t)(o1 >> 8U) << 2U, off2 = (size_t)(o2 >> 8U) << 2U;
	ASSERT((o1 & 0xffU) == len1 && off1 == start, "make_obint: the handle encodes where the string lives and how long it is");
	ASSERT(off2 >= off1 + len1 + 1U && off2 + len2 < OBZ, "make_obint: the next string starts behind the first one and its terminator");
	ASSERT(obs[off1 + len1] == '\0', "an interned string is still NUL-terminated after the next one has been interned (also when its length is a multiple of 4)");
	ASSERT(w >= len1 || obs[off1 + w] == aw, "an interned string keeps its bytes");
	if ((len1 & 3U) == 0U) { SENTINEL("make_obint length multiple of 4"); }
	SENTINEL("make_obint");
}
