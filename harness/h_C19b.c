/* h_C19b.c -- obligations on bitint.c (the +-383 / +-447 containers); the
 * real translation unit is included */
#include "h_common.h"
#include "spec_view.h"
#include "bitint.c"

#define IN12(p)	IN(uint32_t, p##0); IN(uint32_t, p##1); IN(uint32_t, p##2); IN(uint32_t, p##3); \
	IN(uint32_t, p##4); IN(uint32_t, p##5); IN(uint32_t, p##6); IN(uint32_t, p##7); \
	IN(uint32_t, p##8); IN(uint32_t, p##9); IN(uint32_t, p##10); IN(uint32_t, p##11)
#define IN14(p)	IN12(p); IN(uint32_t, p##12); IN(uint32_t, p##13)
#define L12(p)	{p##0, p##1, p##2, p##3, p##4, p##5, p##6, p##7, p##8, p##9, p##10, p##11}
#define L14(p)	{p##0, p##1, p##2, p##3, p##4, p##5, p##6, p##7, p##8, p##9, p##10, p##11, p##12, p##13}
#define S12(p)	{(int32_t)p##0, (int32_t)p##1, (int32_t)p##2, (int32_t)p##3, (int32_t)p##4, (int32_t)p##5, (int32_t)p##6, (int32_t)p##7, (int32_t)p##8, (int32_t)p##9, (int32_t)p##10, (int32_t)p##11}
#define S14(p)	{(int32_t)p##0, (int32_t)p##1, (int32_t)p##2, (int32_t)p##3, (int32_t)p##4, (int32_t)p##5, (int32_t)p##6, (int32_t)p##7, (int32_t)p##8, (int32_t)p##9, (int32_t)p##10, (int32_t)p##11, (int32_t)p##12, (int32_t)p##13}

#define H_ASS(W, T, INP, LP, SN)						\
void h_C19_ass_bi##W(void)							\
{										\
	INP(p); INP(n);								\
	T old = {LP(p), SN(n)};							\
	T bi = old;								\
	IN_RANGE(int, x, -W, W);						\
	IN_RANGE(int, q, -W, W);						\
	ASSUME(WF_##W(&old));							\
	ass_bi##W(&bi, x);							\
	ASSERT(WF_##W(&bi), "ass_bi" #W ": result is well-formed (native list in rank order without duplicates, or bitset)"); \
	ASSERT(HAS_##W(&bi, q) == (HAS_##W(&old, q) || q == x), "ass_bi" #W ": for every q, q in result <=> q in bi or q == x (whole view)"); \
	ASSERT(bi##W##_has_bits_p(&bi), "non-empty after insertion");		\
	if (!BS_##W(&old) && BS_##W(&bi)) { SENTINEL("ass_bi" #W " degrade to bitset"); } \
	if (!BS_##W(&old) && !BS_##W(&bi) && CNT_##W(&old) > 2U && q < 0 && x < 0) { SENTINEL("ass_bi" #W " native insert negative"); } \
	if (BS_##W(&old)) { SENTINEL("ass_bi" #W " bitset"); }			\
	SENTINEL("ass_bi" #W);							\
}
H_ASS(383, bitint383_t, IN12, L12, S12)
H_ASS(447, bitint447_t, IN14, L14, S14)

#define H_NEXT(W, T, INP, LP, SN, NW)						\
void h_C19_bi##W##_next(void)							\
{										\
	INP(p); INP(n);								\
	T bi = {LP(p), SN(n)};							\
	IN_RANGE(size_t, c, 0, 2 * NW * 32);					\
	IN_RANGE(int, q, -W, W);						\
	ASSUME(WF_##W(&bi) && CUR_OK_##W(&bi, c));				\
	bitint_iter_t it = c;							\
	int r = bi##W##_next(&it, &bi);						\
	if (it != 0U) {								\
		ASSERT(CUR_OK_##W(&bi, it), "bi" #W "_next: cursor stays valid"); \
		ASSERT(it > c && it <= 1000U && -W <= r && r <= W, "bi" #W "_next: the cursor strictly advances, the value is in range (the form call sites use)"); \
		ASSERT(HAS_##W(&bi, r), "bi" #W "_next: the delivered value is a member"); \
		ASSERT(!BEFORE_##W(&bi, c, r) && BEFORE_##W(&bi, it, r), "bi" #W "_next: the delivered value lay at or after the old cursor and lies before the new one (delivered once)"); \
		ASSERT(!(HAS_##W(&bi, q) && !BEFORE_##W(&bi, c, q) && q != r) || !BEFORE_##W(&bi, it, q), "bi" #W "_next: no other undelivered member is skipped"); \
		ASSERT(!BEFORE_##W(&bi, c, q) || BEFORE_##W(&bi, it, q), "bi" #W "_next: the cursor only moves forward"); \
		SENTINEL("bi" #W "_next delivers");				\
	} else {								\
		ASSERT(!HAS_##W(&bi, q) || BEFORE_##W(&bi, c, q), "bi" #W "_next: ends only when every member has been delivered"); \
		SENTINEL("bi" #W "_next ends");					\
	}									\
	if (BS_##W(&bi) && c == NW * 32U + 1U) { SENTINEL("bi" #W "_next at the positive/negative boundary"); } \
	if (BS_##W(&bi) && r < 0 && it != 0U) { SENTINEL("bi" #W "_next negative from bitset"); } \
	SENTINEL("bi" #W "_next");						\
}
H_NEXT(383, bitint383_t, IN12, L12, S12, 12U)
H_NEXT(447, bitint447_t, IN14, L14, S14, 14U)

void h_C19_bi383_max0(void)
{
	IN12(p); IN12(n);
	bitint383_t bi = {L12(p), S12(n)};
	IN_RANGE(int, q, -383, 383);
	ASSUME(WF_383(&bi));
	int r = bi383_max0(&bi);
	ASSERT(r >= 0 && (r == 0 || HAS_383(&bi, r)), "bi383_max0: result is 0 or a member");
	ASSERT(!HAS_383(&bi, q) || q <= r, "bi383_max0: no member exceeds the result");
	SENTINEL("bi383_max0");
}
