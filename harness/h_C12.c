/* h_C12.c -- X-ECHS-MAX-SIMUL: task_cb / chld_cb / run_task of echsd.c.
 * System and libev calls are stubs that record what the daemon asks for
 * (trusted); vtodoify's body is dropped (it only writes the request text). */
#include "h_common.h"
#include <spawn.h>
#include <string.h>
#define H_NOLOG
#include "h_echsd.h"

/* ---- recorder stubs */
static unsigned g_spawns;
static const char *g_argv2;	/* args[2] of the last spawn: NULL = run, "-nd" = report as not run */
static unsigned g_child_started, g_child_stopped;
static int g_spawn_ok;

#if !defined REPLAY
int pipe(int fd[2]) { fd[0] = 3; fd[1] = 4; return 0; }
int posix_spawn_file_actions_init(posix_spawn_file_actions_t *fa) { (void)fa; return 0; }
int posix_spawn_file_actions_adddup2(posix_spawn_file_actions_t *fa, int a, int b) { (void)fa; (void)a; (void)b; return 0; }
int posix_spawn_file_actions_addclose(posix_spawn_file_actions_t *fa, int a) { (void)fa; (void)a; return 0; }
int posix_spawn_file_actions_destroy(posix_spawn_file_actions_t *fa) { (void)fa; return 0; }
int openat(int d, const char *fn, int fl, ...) { (void)d; (void)fn; (void)fl; return -1; }
off_t lseek(int fd, off_t o, int w) { (void)fd; (void)o; (void)w; return 0; }
int close(int fd) { (void)fd; return 0; }
int posix_spawn(pid_t *pid, const char *path, const posix_spawn_file_actions_t *fa, const posix_spawnattr_t *at, char *const argv[], char *const envp[])
{
	(void)path; (void)fa; (void)at; (void)envp;
	g_spawns++;
	g_argv2 = argv[2];
	if (g_spawn_ok) {
		*pid = 4711;
		return 0;
	}
	return -1;
}
/* the journal file name is irrelevant here (openat is refused anyway) */
int snprintf(char *s, size_t n, const char *fmt, ...) { (void)fmt; if (n) { s[0] = '\0'; } return 1; }
void ev_loop_fork(struct ev_loop *l) { (void)l; }
void ev_child_start(struct ev_loop *l, ev_child *c) { (void)l; (void)c; g_child_started++; }
void ev_child_stop(struct ev_loop *l, ev_child *c) { (void)l; (void)c; g_child_stopped++; }
void ev_periodic_stop(struct ev_loop *l, ev_periodic *w) { (void)l; (void)w; }
#endif

static struct echs_task_s g_tsk[2];
static struct _task_s g_t[2];
static ev_child g_chld[2];

static void setup(unsigned k, unsigned limit, size_t nsim)
{
	memset(&g_tsk[k], 0, sizeof(g_tsk[k]));
	memset(&g_t[k], 0, sizeof(g_t[k]));
	g_tsk[k].max_simul = limit;
	g_t[k].t = &g_tsk[k];
	g_t[k].nsim = nsim;
	g_t[k].w.reschedule_cb = resched;
}

#define UNLIMITED	63U
#define NORUN(p)	((p) != NULL && (p)[0] == '-' && (p)[1] == 'n')

/* one timer expiry of one task */
void h_C12_task_cb(void)
{
	IN_RANGE(unsigned, limit, 1, 63);	/* 63 = unset = unlimited */
	IN_RANGE(size_t, nsim, 0, 70);
	IN_BOOL(spawn_ok);
	/* invariant of the property: never more than N running */
	ASSUME(limit == UNLIMITED || nsim <= limit);
	setup(0, limit, nsim);
	g_chld[0].data = NULL;
	free_chlds = &g_chld[0], nfree_chlds = 1U;
	g_spawn_ok = spawn_ok;
	g_spawns = 0U;

	task_cb(NULL, &g_t[0].w, 0);

	ASSERT(g_spawns == 1U, "an occurrence falling due makes exactly one request to the executor (run, or report as not run)");
	if (limit == UNLIMITED || nsim < limit) {
		ASSERT(!NORUN(g_argv2), "below the limit (or unlimited) the occurrence is started, not reported as not run");
		ASSERT(g_t[0].nsim == nsim + (spawn_ok ? 1U : 0U), "a started execution is counted as running");
		ASSERT(!spawn_ok || (g_child_started == 1U && g_chld[0].data == &g_t[0]), "a started execution is supervised so that its exit is noticed");
		SENTINEL("task_cb below limit");
	} else {
		ASSERT(NORUN(g_argv2), "at the limit the occurrence is reported as not run instead of being started");
		ASSERT(g_t[0].nsim == nsim, "an occurrence that is not started does not count as running");
		SENTINEL("task_cb at limit");
	}
	ASSERT(limit == UNLIMITED || g_t[0].nsim <= limit, "never more than N executions of the task are counted as running");
	if (limit == 1U) { SENTINEL("task_cb limit 1"); }
	SENTINEL("task_cb");
}

/* a child exits */
void h_C12_chld_cb(void)
{
	IN_RANGE(unsigned, limit, 1, 63);
	IN_RANGE(size_t, nsim, 1, 70);
	setup(0, limit, nsim);
	g_chld[0].data = &g_t[0];
	chld_cb(NULL, &g_chld[0], 0);
	ASSERT(g_t[0].nsim == nsim - 1U, "a finished execution no longer counts as running");
	ASSERT(g_child_stopped == 1U, "the exit watcher is stopped");
	SENTINEL("chld_cb");
}

/* one task at its limit has no effect on how another task is started */
void h_C12_two_tasks(void)
{
	IN_RANGE(unsigned, la, 1, 62);
	IN_RANGE(unsigned, lb, 1, 63);
	IN_RANGE(size_t, nb, 0, 61);
	ASSUME(lb == UNLIMITED || nb < lb);
	setup(0, la, la);	/* A is at its limit */
	setup(1, lb, nb);	/* B is below its limit */
	g_chld[0].data = &g_chld[1];
	g_chld[1].data = NULL;
	free_chlds = &g_chld[0], nfree_chlds = 2U;
	g_spawn_ok = 1;
	task_cb(NULL, &g_t[0].w, 0);
	ASSERT(NORUN(g_argv2), "A at its limit is reported as not run");
	task_cb(NULL, &g_t[1].w, 0);
	ASSERT(!NORUN(g_argv2), "B below its limit is started although A was just refused");
	ASSERT(g_t[1].nsim == nb + 1U && g_t[0].nsim == la, "only B's count changes");
	SENTINEL("two tasks");
}
