/* h_C06.c -- the checkpoint protocol of echsd.c: chkpnt1 / chkpnt / add_chkpnt.
 * System calls are replaced by a ghost file system (trusted): it records
 * what is done to the DOT name (".echsq_<u>.ics", the temporary) and to the
 * LIVE name ("echsq_<u>.ics").  A process crash acts between system calls
 * and renameat is atomic, so "the live name is only ever replaced by a
 * rename from a completely written, successfully closed dot file" IS
 * torn-freedom at every crash point.  Every stub may fail. */
#include "h_common.h"
#include <spawn.h>
#include <string.h>
#include <stdlib.h>
#include <fcntl.h>
#define H_NOLOG
#include "h_echsd.h"

/* ghost file system */
static unsigned g_open_dot, g_open_live;	/* O_TRUNC opens */
static unsigned g_writes, g_write_failed;
static unsigned g_footer;			/* echs_icalify_fini ran */
static unsigned g_header;
static unsigned g_closed, g_close_failed;
static unsigned g_renamed_ok, g_rename_calls, g_rename_bad;
static unsigned g_unlink_dot, g_unlink_live;
static unsigned g_tasks_written;
static int g_fd;

#if !defined REPLAY
/* the two names are told apart by the leading dot, the rest of the name is irrelevant */
int snprintf(char *s, size_t n, const char *fmt, ...) { (void)fmt; if (n > 2U) { s[0] = '.'; s[1] = 'Q'; s[2] = '\0'; } return 2; }
int openat(int d, const char *fn, int fl, ...)
{
	(void)d;
	if (fn[0] == '.') { g_open_dot++; } else { g_open_live++; }
	if (nondet_bool()) { return -1; }
	g_fd = 7;
	return 7;
}
int close(int fd) { (void)fd; g_closed++; if (nondet_bool()) { g_close_failed++; return -1; } return 0; }
int renameat(int d1, const char *from, int d2, const char *to)
{
	(void)d1; (void)d2;
	g_rename_calls++;
	/* from the dot name onto the live name of the same user */
	if (!(from[0] == '.' && to == from + 1)) { g_rename_bad++; }
	if (nondet_bool()) { return -1; }
	g_renamed_ok++;
	return 0;
}
int unlinkat(int d, const char *fn, int fl) { (void)d; (void)fl; if (fn[0] == '.') { g_unlink_dot++; } else { g_unlink_live++; } return 0; }
/* the serialiser (evical.c) writes through fdprnt.h; its results are void: a failing write goes unnoticed */
void echs_icalify_init(int fd, echs_instruc_t i) { (void)fd; (void)i; g_header++; g_writes++; if (nondet_bool()) { g_write_failed++; } }
void echs_task_icalify(int fd, echs_task_t t) { (void)fd; (void)t; g_tasks_written++; g_writes++; if (nondet_bool()) { g_write_failed++; } }
void echs_icalify_fini(int fd) { (void)fd; g_footer++; g_writes++; if (nondet_bool()) { g_write_failed++; } }
void ev_periodic_stop(struct ev_loop *l, ev_periodic *w) { (void)l; (void)w; }
#endif

#define NSLOT	4U
static struct _task_s g_tasks[NSLOT];
static struct echs_task_s g_etasks[NSLOT];

void h_C06_chkpnt1(void)
{
	IN_RANGE(unsigned, u, 0, 70000);
	IN_RANGE(unsigned, own0, 0, 70000); IN_RANGE(unsigned, own1, 0, 70000);
	IN_RANGE(unsigned, own2, 0, 70000); IN_RANGE(unsigned, own3, 0, 70000);
	IN_RANGE(unsigned, used, 0, 15);	/* which slots hold a task */
	unsigned own[NSLOT] = {own0, own1, own2, own3};
	task_ht = calloc(NSLOT, sizeof(*task_ht));
	ASSUME(task_ht != NULL);
	ztask_ht = NSLOT;
	unsigned mine = 0U;
	for (size_t i = 0; i < NSLOT; i++) {
		g_tasks[i].t = &g_etasks[i];
		g_etasks[i].owner = nummapstr_bang_num(own[i]);
		if ((used >> i) & 1U) {
			task_ht[i].oid = 0x10U + i;
			task_ht[i].t = &g_tasks[i];
			mine += own[i] == u;
		}
	}
	int r = chkpnt1((uid_t)u);
#if defined REGION_WRITE_FAILED
	/* region of known finding KF-C06-write-failure */
	ASSUME(g_write_failed);
#else
	ASSUME(!g_write_failed);
#endif
	ASSERT(g_open_live == 0U && g_unlink_live == 0U, "checkpoint: the live queue file is never opened for writing, truncated or unlinked");
	ASSERT(g_rename_bad == 0U && g_rename_calls <= 1U, "checkpoint: the only change to the live file is one rename from the same user's temporary file");
	if (g_rename_calls) {
		ASSERT(g_header == 1U && g_footer == 1U && g_closed == 1U && g_close_failed == 0U, "checkpoint: the temporary file is renamed over the live one only after header, all tasks and footer were written and close() succeeded");
		ASSERT(g_tasks_written == mine, "checkpoint: the file renamed into place holds exactly the user's tasks");
		ASSERT(g_write_failed == 0U, "checkpoint: a file that lost bytes to a failed write is never renamed over the live one");
		SENTINEL("chkpnt1 renamed");
	}
	if (r == 0) {
		ASSERT(g_renamed_ok == 1U, "checkpoint: success is reported only after the rename");
		SENTINEL("chkpnt1 ok");
	} else {
		ASSERT(g_renamed_ok == 0U, "checkpoint: failure is reported when the live file was not replaced");
		ASSERT(g_open_dot == 0U || g_fd != 7 || g_unlink_dot == 1U || g_closed == 0U, "checkpoint: after a failed close/rename the temporary file is removed");
		SENTINEL("chkpnt1 failed");
	}
	SENTINEL("chkpnt1");
}

/* ---- chkpnt(): every noted user is checkpointed, or everybody when the
 * note array is full.  chkpnt1 / chkpnta are replaced by counting contracts. */
static unsigned g_cp1, g_cpa, g_seen_w;
static uid_t g_wkey;
static int chkpnt1(uid_t u)
__CPROVER_assigns(g_cp1, g_seen_w)
__CPROVER_ensures(g_cp1 == __CPROVER_old(g_cp1) + 1U)
__CPROVER_ensures(g_seen_w == (__CPROVER_old(g_seen_w) | (u == g_wkey ? 1U : 0U)))
__CPROVER_ensures(__CPROVER_return_value == 0 || __CPROVER_return_value == -1);
static int chkpnta(void)
__CPROVER_assigns(g_cpa)
__CPROVER_ensures(g_cpa == __CPROVER_old(g_cpa) + 1U)
__CPROVER_ensures(__CPROVER_return_value == 0 || __CPROVER_return_value == -1);

void h_C06_chkpnt(void)
{
	IN_RANGE(size_t, n, 0, 16);
	IN_RANGE(size_t, w, 0, 15);
	IN_RANGE(unsigned, wkey, 0, 70000);
	ichkpnts = n;
	if (w < n) {
		chkpnts[w].key = wkey;
	}
	g_wkey = wkey;
	g_cp1 = g_cpa = g_seen_w = 0U;
	(void)chkpnt();
	ASSERT(ichkpnts == 0U, "chkpnt: the set of noted users is cleared");
	if (n >= countof(chkpnts)) {
		ASSERT(g_cpa == 1U, "chkpnt: when the note array is full (changes may have gone unnoted) every user's queue is dumped");
		SENTINEL("chkpnt full");
	} else {
		ASSERT(g_cp1 == n && g_cpa == 0U, "chkpnt: one checkpoint per noted user");
		ASSERT(!(w < n) || g_seen_w == 1U, "chkpnt: every noted user is checkpointed");
		SENTINEL("chkpnt some");
	}
	SENTINEL("chkpnt");
}
