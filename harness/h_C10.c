/* h_C10.c -- parser front end of evical.c: esccpy and _ical_pull
 * (the real translation unit is included) */
#include "h_common.h"
#include <stdlib.h>
#include <string.h>

/* contract of esccpy, enforced by DFCC (frame variant: is_fresh buffers of
 * symbolic size, assigns clause checked) */
static size_t esccpy(char *restrict tgt, size_t tz, const char *src, size_t sz)
__CPROVER_requires(1U <= tz && tz <= 2048U && sz <= 8192U)
__CPROVER_requires(__CPROVER_is_fresh(tgt, tz) && __CPROVER_is_fresh(src, sz))
__CPROVER_assigns(__CPROVER_object_upto(tgt, tz))
__CPROVER_ensures(__CPROVER_return_value < tz)
__CPROVER_ensures(__CPROVER_return_value == 0U || tgt[__CPROVER_return_value] == '\0');

#if !defined REPLAY
/* CBMC has no model of memchr: contract (trusted) and the textbook body */
unsigned h_nproc;
void *memchr(const void *s, int c, size_t n)
__CPROVER_requires(n <= 4096U && __CPROVER_r_ok(s, n))
__CPROVER_assigns()
__CPROVER_ensures(__CPROVER_return_value == NULL ||
	(__CPROVER_same_object(__CPROVER_return_value, s) &&
	 __CPROVER_POINTER_OFFSET(__CPROVER_return_value) >= __CPROVER_POINTER_OFFSET(s) &&
	 __CPROVER_POINTER_OFFSET(__CPROVER_return_value) < __CPROVER_POINTER_OFFSET(s) + n &&
	 *(const unsigned char*)__CPROVER_return_value == (unsigned char)c))
{
	const unsigned char *p = s;
	for (size_t i = 0; i < n; i++) {
		if (p[i] == (unsigned char)c) {
			return (void*)(p + i);
		}
	}
	return NULL;
}
#endif
#include "evical.c"

/* contract of _ical_proc as _ical_pull needs it: called only with a
 * NUL-terminated line inside the stash; consumes the line (six = 0); the
 * result (event completed or not) is arbitrary.  Used by replacement. */
static struct ical_vevent_s *_ical_proc(struct ical_parser_s p[static 1U])
__CPROVER_requires(p->six < sizeof(p->stash) && p->stash[p->six] == '\0')
__CPROVER_assigns(p->six, p->st, h_nproc)
__CPROVER_ensures(p->six == 0U && h_nproc == __CPROVER_old(h_nproc) + 1U)
/* at most 3 lines are processed per pull in this obligation (the bound) */
__CPROVER_ensures(h_nproc < 3U || __CPROVER_return_value != NULL);

void h_C10_esccpy(void)
{
	char *tgt;
	const char *src;
	size_t tz, sz;
	size_t r = esccpy(tgt, tz, src, sz);
	(void)r;
	SENTINEL("esccpy");
}

#if defined STUB_PROC
#if !defined BUFZ
# define BUFZ	12
#endif
/* memory safety and parser well-formedness for any buffer content */
void h_C10_pull(void)
{
	struct ical_parser_s *p = calloc(1, sizeof(*p));
	ASSUME(p != NULL);
	IN_RANGE(size_t, six, 0, 1023);
	IN_RANGE(size_t, bsz, 1, BUFZ);
	IN_BOOL(marker);
	char *buf = malloc(bsz);
	ASSUME(buf != NULL);
	/* buffer content and stash content are arbitrary */
	for (size_t i = 0; i < BUFZ; i++) {
		if (i < bsz) {
#if defined ALPHA3
			/* the bytes the line chopper distinguishes: line feed, blank (fold), anything else */
			uint8_t k = nondet_uint8_t();
			ASSUME(k < 3U);
			buf[i] = k == 0U ? '\n' : k == 1U ? ' ' : 'A';
#else
			buf[i] = nondet_char();
#endif
		}
	}
	p->six = six;
	if (six) {
		p->stash[six] = marker ? '\001' : '\0';
	}
	h_nproc = 0U;
	_ical_push(p, buf, bsz);
	(void)_ical_pull(p);
	ASSERT(p->six < sizeof(p->stash), "parser: the stash index stays inside the stash");
	ASSERT(p->bix <= p->bsz, "parser: the buffer index stays inside the pushed chunk");
	SENTINEL("pull");
}
#endif
