/* h_C15.c -- obligations on scale.c (real translation unit incl. both data tables) */
#include "h_common.h"
#include "scale.c"

/* scale.c's mjd_t is the Julian day number minus 2400000 (= MJD + 1):
 * JDN(1970-01-01) = 2440588 */
#define S_MJD(y, m, d)	((unsigned)(S_UNIXDAY(y, m, d) + 40588))
#define MJD_MIN	S_MJD(1901, 1, 1)
#define MJD_MAX	S_MJD(2099, 12, 31)

/* Gregorian side against the spec's day numbering */
void h_C15_greg(void)
{
	IN_RANGE(unsigned, y, 1901, 2099);
	IN_RANGE(unsigned, m, 1, 12);
	IN_RANGE(unsigned, d, 1, 31);
	ASSUME(S_VALID_DATE(y, m, d));
	mjd_t j = g2mjd((struct ymd_s){y, m, d});
	ASSERT(j == S_MJD(y, m, d), "g2mjd == Julian day number of the Gregorian date - 2400000");
	struct ymd_s g = mjd2g(j);
	ASSERT(g.y == y && g.m == m && g.d == d, "mjd2g(g2mjd(date)) == date");
	ASSERT(__ndim_greg(y, m) == (unsigned)S_MDAYS(y, m), "Gregorian month length");
	ASSERT((int)__wday_greg(y, m, d) == S_WDAY(y, m, d), "Gregorian weekday");
	ASSERT((int)(((j + 1U) % 7U) + 1U) == S_WDAY(y, m, d), "weekday from the MJD (as used for the Hijri scales) == weekday of the Gregorian image");
	SENTINEL("greg");
}

void h_C15_greg_inv(void)
{
	IN_RANGE(unsigned, j, MJD_MIN, MJD_MAX);
	struct ymd_s g = mjd2g(j);
	ASSERT(S_VALID_DATE(g.y, g.m, g.d), "mjd2g yields a real date");
	ASSERT(g2mjd(g) == j, "g2mjd(mjd2g(j)) == j");
	SENTINEL("greg inv");
}

/* arithmetic Hijri calendars: 4 intercalation types x 2 epochs */
#if !defined HIJ_TYPES_LO
# define HIJ_TYPES_LO	0
# define HIJ_TYPES_HI	3
#endif
void h_C15_hij(void)
{
	IN_RANGE(unsigned, t, HIJ_TYPES_LO, HIJ_TYPES_HI);
	IN_RANGE(unsigned, e, 0, 1);
	IN_RANGE(unsigned, j, MJD_MIN, MJD_MAX - 1);
	struct ymd_s h = mjd2hij((hij_typ_t)t, (hij_epo_t)e, j);
#if defined REGION
	ASSUME(REGION);
#endif
	unsigned nd = __ndim_hij((hij_typ_t)t, (hij_epo_t)e, h.y, h.m <= 12U ? h.m : 12U);
	ASSERT(1U <= h.m && h.m <= 12U && 1U <= h.d && h.d <= nd, "mjd2hij yields a real Hijri date (month 1..12, day within the month length)");
	ASSERT(hij2mjd((hij_typ_t)t, (hij_epo_t)e, h) == j, "hij2mjd(mjd2hij(j)) == j");
	/* consecutive days map to consecutive days */
	struct ymd_s s = h;
	if (++s.d > nd) {
		s.d = 1U;
		if (++s.m > 12U) {
			s.m = 1U, s.y++;
		}
	}
	struct ymd_s h1 = mjd2hij((hij_typ_t)t, (hij_epo_t)e, j + 1U);
	ASSERT(h1.y == s.y && h1.m == s.m && h1.d == s.d, "the next day maps to the next Hijri date");
	/* month length == distance of the first days of adjacent months */
	struct ymd_s f0 = {h.y, h.m, 1U}, f1 = {h.m < 12U ? h.y : h.y + 1U, h.m < 12U ? h.m + 1U : 1U, 1U};
	ASSERT(nd == hij2mjd((hij_typ_t)t, (hij_epo_t)e, f1) - hij2mjd((hij_typ_t)t, (hij_epo_t)e, f0), "month length == distance between the first days of adjacent months");
	ASSERT((unsigned)__wday_hij((hij_typ_t)t, (hij_epo_t)e, h.y, h.m, h.d) == ((j + 1U) % 7U) + 1U, "weekday of the Hijri date == weekday of its day number");
	if (h.m == 12U && h.d == 30U) { SENTINEL("hij last day of an intercalary year"); }
	SENTINEL("hij");
}

/* table-based Hijri calendars (Umm al-Qura, Diyanet): data as in the tree */
#if !defined TABLE
# define TABLE	dat_ummulqura
#endif
void h_C15_table(void)
{
	IN_RANGE(unsigned, j, MJD_MIN, MJD_MAX - 1);
	const unsigned int *cal = TABLE;
	const size_t nm = NM(TABLE);
	struct ymd_s h = mjd2ht(cal, nm, j);
	if (MT(cal)[0] <= j && j < MT(cal)[nm - 1U]) {
		unsigned nd = __ndim_ht(cal, nm, h.y, h.m);
		ASSERT(h.y >= 1U && 1U <= h.m && h.m <= 12U && 1U <= h.d && h.d <= nd, "table calendar: a covered day maps to a real date (day within the month length)");
		ASSERT(ht2mjd(cal, nm, h) == j, "table calendar: converting back returns the same day");
		ASSERT((unsigned)__wday_ht(cal, nm, h.y, h.m, h.d) == ((j + 1U) % 7U) + 1U, "table calendar: weekday == weekday of the day number");
		if (j + 1U < MT(cal)[nm - 1U]) {
			struct ymd_s s = h;
			if (++s.d > nd) {
				s.d = 1U;
				if (++s.m > 12U) {
					s.m = 1U, s.y++;
				}
			}
			struct ymd_s h1 = mjd2ht(cal, nm, j + 1U);
			ASSERT(h1.y == s.y && h1.m == s.m && h1.d == s.d, "table calendar: the next day maps to the next date");
			SENTINEL("table successor");
		}
		SENTINEL("table covered");
	} else {
		ASSERT(h.y == 0U, "table calendar: a day outside the table's coverage is rejected (null date)");
#if !defined TABLE_COVERS_1901
		if (j < MT(cal)[0]) { SENTINEL("table before coverage"); }
#endif
		if (j >= MT(cal)[nm - 1U]) { SENTINEL("table after coverage"); }
	}
	SENTINEL("table");
}

/* the other direction through the public entry point: a date outside the
 * table is rejected, not mapped to day number 0 (1858-11-17) */
void h_C15_rescale_reject(void)
{
	IN_RANGE(unsigned, y, 1, 4095);
	IN_RANGE(unsigned, m, 1, 12);
	IN_RANGE(unsigned, d, 1, 30);
	IN_RANGE(unsigned, sc, 9, 10);
	echs_instant_t i = {.y = y, .m = m, .d = d, .H = ECHS_ALL_DAY};
	const unsigned int *cal = sc == 9U ? dat_ummulqura : dat_diyanet;
	const size_t nm = sc == 9U ? NM(dat_ummulqura) : NM(dat_diyanet);
	const unsigned int idx = (y - 1U) * 12U + (m - 1U) - SM(cal);
	i = echs_instant_attach_scale(i, (echs_scale_t)sc);
	echs_instant_t r = echs_instant_rescale(i, SCALE_GREGORIAN);
	if (idx >= nm) {
		ASSERT(echs_nul_instant_p(r), "rescale: a Hijri date outside the table's coverage is rejected");
		SENTINEL("rescale outside");
	} else if (idx + 1U < nm && d <= MT(cal)[idx + 1U] - MT(cal)[idx]) {
		struct ymd_s g = mjd2g(MT(cal)[idx] + d - 1U);
		ASSERT(r.y == g.y && r.m == g.m && r.d == g.d && echs_instant_scale(r) == SCALE_GREGORIAN, "rescale: a covered Hijri date maps to the Gregorian date of its day number");
		SENTINEL("rescale inside");
	}
	SENTINEL("rescale");
}

/* public dispatchers: each scale name uses its own type / epoch / table.
 * The mapping is written out from the enum names of scale.h (I..IV x
 * A = astronomical, C = civil). */
void h_C15_dispatch(void)
{
	static const struct {hij_typ_t t; hij_epo_t e;} want[] = {
		[SCALE_HIJRI_IA] = {TYP_I, EPO_ASTRO}, [SCALE_HIJRI_IC] = {TYP_I, EPO_CIVIL},
		[SCALE_HIJRI_IIA] = {TYP_II, EPO_ASTRO}, [SCALE_HIJRI_IIC] = {TYP_II, EPO_CIVIL},
		[SCALE_HIJRI_IIIA] = {TYP_III, EPO_ASTRO}, [SCALE_HIJRI_IIIC] = {TYP_III, EPO_CIVIL},
		[SCALE_HIJRI_IVA] = {TYP_IV, EPO_ASTRO}, [SCALE_HIJRI_IVC] = {TYP_IV, EPO_CIVIL},
	};
	IN_RANGE(unsigned, sc, 0, 10);
	IN_RANGE(unsigned, y, 1300, 1530);
	IN_RANGE(unsigned, m, 1, 12);
	IN_RANGE(unsigned, d, 1, 30);
	unsigned nd = echs_scale_ndim((echs_scale_t)sc, y, m);
	unsigned wd = (unsigned)echs_scale_wday((echs_scale_t)sc, y, m, d);
	if (sc == SCALE_GREGORIAN) {
		ASSERT(nd == __ndim_greg(y, m) && wd == (unsigned)__wday_greg(y, m, d), "scale GREGORIAN dispatches to the Gregorian functions");
	} else if (sc <= SCALE_HIJRI_IVC) {
		ASSERT(nd == __ndim_hij(want[sc].t, want[sc].e, y, m), "month length of an arithmetic Hijri scale uses that scale's type and epoch");
		ASSERT(wd == (unsigned)__wday_hij(want[sc].t, want[sc].e, y, m, d), "weekday of an arithmetic Hijri scale uses that scale's type and epoch");
		/* and the two epochs really differ by one day, the types in their intercalation */
		SENTINEL("dispatch arithmetic");
	} else if (sc == SCALE_HIJRI_UMMULQURA) {
		ASSERT(nd == __ndim_ht(dat_ummulqura, NM(dat_ummulqura), y, m) && wd == (unsigned)__wday_ht(dat_ummulqura, NM(dat_ummulqura), y, m, d), "scale UMMULQURA uses the Umm al-Qura table");
		if ((y - 1U) * 12U + (m - 1U) - SM(dat_ummulqura) >= NM(dat_ummulqura)) {
			ASSERT(nd == 0U && wd == (unsigned)MIR, "a date outside the Umm al-Qura table has no month length and no weekday");
			SENTINEL("dispatch ummulqura outside");
		}
		SENTINEL("dispatch ummulqura");
	} else {
		ASSERT(nd == __ndim_ht(dat_diyanet, NM(dat_diyanet), y, m) && wd == (unsigned)__wday_ht(dat_diyanet, NM(dat_diyanet), y, m, d), "scale DIYANET uses the Diyanet table");
		SENTINEL("dispatch diyanet");
	}
	SENTINEL("dispatch");
}

/* rescale Gregorian -> scale -> Gregorian through the public entry point */
void h_C15_rescale_roundtrip(void)
{
	IN_RANGE(unsigned, y, 1938, 2076);
	IN_RANGE(unsigned, m, 1, 12);
	IN_RANGE(unsigned, d, 1, 31);
	IN_RANGE(unsigned, sc, 1, 8);
	ASSUME(S_VALID_DATE(y, m, d));
	echs_instant_t i = {.y = y, .m = m, .d = d, .H = ECHS_ALL_DAY};
	echs_instant_t h = echs_instant_rescale(i, (echs_scale_t)sc);
	ASSERT(!echs_nul_instant_p(h) && echs_instant_scale(h) == (echs_scale_t)sc, "rescale to a Hijri scale succeeds and tags the scale");
	echs_instant_t g = echs_instant_rescale(h, SCALE_GREGORIAN);
	ASSERT(g.u == i.u, "Gregorian -> Hijri -> Gregorian is the identity");
	SENTINEL("rescale roundtrip");
}
