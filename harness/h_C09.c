/* h_C09.c -- the sub-daily fillers of evrrul.c (C09 memory safety and
 * termination, C16 order and bounds).  Iterators and calendar kernels are
 * replaced by the contracts that C19 / C01.k discharge; every loop carries an
 * in-place loop contract (ECHSE_VERIF hooks in evrrul.c). */
#include "h_common.h"
#include "spec_instant.h"
#define CONTRACT_DECLS_bitint
#define CONTRACT_DECLS_bi447
#include "contracts_bitint.h"
#include "scale.h"
#include <string.h>

size_t verif_j, verif_k;
int verif_step_dn;

/* kernels by contract (discharged by C01.k.wday) */
static echs_wday_t ymd_get_wday(unsigned int y, unsigned int m, unsigned int d)
__CPROVER_requires(1601U <= y && y <= 2100U && 1U <= m && m <= 12U && 1U <= d && d <= 31U)
__CPROVER_assigns()
__CPROVER_ensures(1U <= (unsigned)__CPROVER_return_value && (unsigned)__CPROVER_return_value <= 7U);
static inline unsigned int __get_ndom(unsigned int y, unsigned int m)
__CPROVER_requires(1U <= m && m <= 12U)
__CPROVER_assigns()
__CPROVER_ensures(__CPROVER_return_value == (unsigned int)S_MDAYS(y, m));

/* scale helpers (scale.c) by contract: the obligations below fix the scale to
 * GREGORIAN (the table-based Hijri scales report month length 0 outside
 * their coverage, which the fillers divide by - not covered here) */
unsigned int echs_scale_ndim(echs_scale_t s, unsigned int y, unsigned int m)
__CPROVER_requires(s == SCALE_GREGORIAN && 1U <= m && m <= 12U)
__CPROVER_assigns()
__CPROVER_ensures(__CPROVER_return_value == (unsigned int)S_MDAYS(y, m));
echs_wday_t echs_scale_wday(echs_scale_t s, unsigned int y, unsigned int m, unsigned int d)
__CPROVER_requires(s == SCALE_GREGORIAN && 1U <= m && m <= 12U && 1U <= d && d <= 31U)
__CPROVER_assigns()
__CPROVER_ensures(1U <= (unsigned)__CPROVER_return_value && (unsigned)__CPROVER_return_value <= 7U)
__CPROVER_ensures((int)__CPROVER_return_value == S_WDAY(y, m, d));
echs_instant_t echs_instant_rescale(echs_instant_t i, echs_scale_t tgt)
__CPROVER_requires(tgt == SCALE_GREGORIAN)
__CPROVER_assigns()
__CPROVER_ensures(__CPROVER_return_value.u == i.u);
struct enum_s;
typedef const struct rrulsp_s *rrulsp_t;

#include "evrrul.c"

/* make_enum by contract (discharged by C09.make_enum): between 1 and
 * 24/60/61 entries */
static int make_enum(struct enum_s *restrict tgt, echs_instant_t proto, rrulsp_t rr)
__CPROVER_requires(__CPROVER_is_fresh(tgt, sizeof(*tgt)))
__CPROVER_assigns(__CPROVER_object_whole(tgt))
__CPROVER_ensures(1U <= tgt->nH && tgt->nH <= 24U && 1U <= tgt->nM && tgt->nM <= 60U && 1U <= tgt->nS && tgt->nS <= 61U);
size_t rrul_fill_wly(echs_instant_t *restrict tgt, size_t nti, rrulsp_t rr)
__CPROVER_assigns(__CPROVER_object_upto(tgt, 2U * GRP_CCH_OFF * sizeof(*tgt)))
__CPROVER_ensures(__CPROVER_return_value <= nti);

#define NTI	64U
static echs_instant_t g_tgt[2U * NTI];
static struct rrulsp_s g_rr;

#define RR_WF(rr)	((rr)->inter >= 1U && (rr)->inter <= RR_INTER_MAX && \
	WF_BI31((rr)->dom) && (SINGLE_BI((rr)->dom) || !((rr)->dom.pos & 1U)) && WF_BUI31((rr)->mon) && WF_BUI31((rr)->H) && \
	WF_BUI63((rr)->M) && WF_BUI63((rr)->S) && WF_447(&(rr)->dow))
#if !defined RR_INTER_MAX
# define RR_INTER_MAX	1000000U
#endif

#if defined EMPTY_SETS
/* debugging variant: no BYxxx parts at all (concrete empty containers) */
# define H_SETS()	(g_rr.dom = (bitint31_t){0U, 0}, g_rr.mon = 0U, g_rr.H = 0U, g_rr.M = 0U, g_rr.S = 0U, memset(&g_rr.dow, 0, sizeof(g_rr.dow)))
#else
# define H_SETS()	((void)0)
#endif
#define H_FILLER(NAME, FN)							\
void h_C09_##NAME(void)								\
{										\
	IN_INSTANT_FIELDS(proto);						\
	IN_INSTANT_FIELDS(until);						\
	IN_RANGE(size_t, nti, 1, NTI);						\
	IN_RANGE(int, count, -1, 1000);						\
	IN_RANGE(unsigned, inter, 1, RR_INTER_MAX);				\
	IN_RANGE(size_t, j, 0, NTI - 1);					\
	IN_RANGE(size_t, k, 0, NTI - 1);					\
	ASSUME(I_VALID(proto) && !I_ALLSEC(proto) && proto.ms == 0U);		\
	ASSUME(until.u == ~0ULL || I_VALID(until));				\
	/* the rule: any well-formed BYxxx sets (symbolic container states) */	\
	g_rr.freq = FREQ_SECONDLY, g_rr.scale = SCALE_GREGORIAN;		\
	g_rr.count = count, g_rr.inter = inter, g_rr.until = until;		\
	H_SETS();								\
	ASSUME(RR_WF(&g_rr));							\
	/* refill() hands over an array filled with the proto instant */	\
	g_tgt[0] = proto;							\
	ASSUME(g_tgt[j].u == proto.u && g_tgt[k].u == proto.u);			\
	verif_j = j, verif_k = k;						\
	size_t r = FN(g_tgt, nti, &g_rr);					\
	ASSERT(r <= nti, #FN ": never returns more than asked for");		\
	ASSERT(count < 0 || r <= (size_t)count, #FN ": never more than COUNT");	\
	if (j < k && k < r) {							\
		ASSERT(echs_instant_lt_p(g_tgt[j], g_tgt[k]), #FN ": occurrences come out in strictly increasing order (witness pair)"); \
		SENTINEL(#NAME " two occurrences");				\
	}									\
	if (k < r) {								\
		ASSERT(VERIF_PROTO_KEY(proto) <= VERIF_IKEY(g_tgt[k]), #FN ": no occurrence before DTSTART (second resolution; midnight for an all-day DTSTART)"); \
		ASSERT(!echs_instant_lt_p(until, g_tgt[k]), #FN ": no occurrence after UNTIL"); \
		ASSERT(I_VALID_DATE(g_tgt[k]) && g_tgt[k].H < 24U && g_tgt[k].M < 60U && g_tgt[k].S < 60U, #FN ": every occurrence is a real date-time"); \
	}									\
	SENTINEL(#NAME);							\
}
H_FILLER(Sly, rrul_fill_Sly)

/* DAILY: memory safety, <= nti, <= COUNT, termination, within [DTSTART, UNTIL] */
void h_C09_dly(void)
{
	IN_INSTANT_FIELDS(proto);
	IN_INSTANT_FIELDS(until);
	IN_RANGE(size_t, nti, 1, NTI);
	IN_RANGE(int, count, -1, 1000);
	IN_RANGE(unsigned, inter, 1, RR_INTER_MAX);
	IN_RANGE(size_t, k, 0, NTI - 1);
	ASSUME(I_VALID(proto) && !I_ALLSEC(proto) && proto.ms == 0U);
	ASSUME(until.u == ~0ULL || I_VALID(until));
	g_rr.freq = FREQ_DAILY, g_rr.scale = SCALE_GREGORIAN;
	g_rr.count = count, g_rr.inter = inter, g_rr.until = until;
	H_SETS();
	ASSUME(RR_WF(&g_rr));
	g_tgt[0] = proto;
	verif_j = k, verif_k = k;
	size_t r = rrul_fill_dly(g_tgt, nti, &g_rr);
	ASSERT(r <= nti, "rrul_fill_dly: never returns more than asked for");
	ASSERT(count < 0 || r <= (size_t)count, "rrul_fill_dly: never more than COUNT");
	if (k < r && (g_rr.inter != 1U || !(g_rr.dow.pos[0]))) {
		ASSERT(!echs_instant_lt_p(g_tgt[k], proto), "rrul_fill_dly: no occurrence before DTSTART");
		ASSERT(!echs_instant_lt_p(until, g_tgt[k]), "rrul_fill_dly: no occurrence after UNTIL");
		SENTINEL("dly an occurrence");
	}
	SENTINEL("dly");
}

/* WEEKLY: memory safety, <= nti, <= COUNT, termination, within [DTSTART, UNTIL] */
void h_C09_wly(void)
{
	IN_INSTANT_FIELDS(proto);
	IN_INSTANT_FIELDS(until);
	IN_RANGE(size_t, nti, 1, NTI);
	IN_RANGE(int, count, -1, 1000);
	IN_RANGE(unsigned, inter, 1, RR_INTER_MAX);
	IN_RANGE(size_t, k, 0, NTI - 1);
	ASSUME(I_VALID(proto) && !I_ALLSEC(proto) && proto.ms == 0U);
	ASSUME(until.u == ~0ULL || I_VALID(until));
	g_rr.freq = FREQ_WEEKLY, g_rr.scale = SCALE_GREGORIAN;
	g_rr.count = count, g_rr.inter = inter, g_rr.until = until;
	H_SETS();
	ASSUME(RR_WF(&g_rr));
	g_tgt[0] = proto;
	verif_j = k, verif_k = k;
	size_t r = rrul_fill_wly(g_tgt, nti, &g_rr);
	ASSERT(r <= nti, "rrul_fill_wly: never returns more than asked for");
	ASSERT(count < 0 || r <= (size_t)count, "rrul_fill_wly: never more than COUNT");
	if (k < r) {
		ASSERT(!echs_instant_lt_p(g_tgt[k], proto), "rrul_fill_wly: no occurrence before DTSTART");
		ASSERT(!echs_instant_lt_p(until, g_tgt[k]), "rrul_fill_wly: no occurrence after UNTIL");
		SENTINEL("wly an occurrence");
	}
	SENTINEL("wly");
}

/* HOURLY */
void h_C09_Hly(void)
{
	IN_INSTANT_FIELDS(proto);
	IN_INSTANT_FIELDS(until);
	IN_RANGE(size_t, nti, 1, NTI);
	IN_RANGE(int, count, -1, 1000);
	IN_RANGE(unsigned, inter, 1, RR_INTER_MAX);
	IN_RANGE(size_t, k, 0, NTI - 1);
	ASSUME(I_VALID(proto) && !I_ALLSEC(proto) && proto.ms == 0U);
	ASSUME(until.u == ~0ULL || I_VALID(until));
	g_rr.freq = FREQ_HOURLY, g_rr.scale = SCALE_GREGORIAN;
	g_rr.count = count, g_rr.inter = inter, g_rr.until = until;
	H_SETS();
	ASSUME(RR_WF(&g_rr) && WF_383(&g_rr.doy));
	g_tgt[0] = proto;
	verif_j = k, verif_k = k;
	size_t r = rrul_fill_Hly(g_tgt, nti, &g_rr);
	ASSERT(r <= nti, "rrul_fill_Hly: never returns more than asked for");
	ASSERT(count < 0 || r <= (size_t)count, "rrul_fill_Hly: never more than COUNT");
	if (k < r) {
		ASSERT(!echs_instant_lt_p(g_tgt[k], proto), "rrul_fill_Hly: no occurrence before DTSTART");
		ASSERT(!echs_instant_lt_p(until, g_tgt[k]), "rrul_fill_Hly: no occurrence after UNTIL");
		SENTINEL("Hly an occurrence");
	}
	SENTINEL("Hly");
}

/* MINUTELY */
void h_C09_Mly(void)
{
	IN_INSTANT_FIELDS(proto);
	IN_INSTANT_FIELDS(until);
	IN_RANGE(size_t, nti, 1, NTI);
	IN_RANGE(int, count, -1, 1000);
	IN_RANGE(unsigned, inter, 1, RR_INTER_MAX);
	IN_RANGE(size_t, k, 0, NTI - 1);
	ASSUME(I_VALID(proto) && !I_ALLSEC(proto) && proto.ms == 0U);
	ASSUME(until.u == ~0ULL || I_VALID(until));
	g_rr.freq = FREQ_MINUTELY, g_rr.scale = SCALE_GREGORIAN;
	g_rr.count = count, g_rr.inter = inter, g_rr.until = until;
	H_SETS();
	ASSUME(RR_WF(&g_rr));
	g_tgt[0] = proto;
	verif_j = k, verif_k = k;
	size_t r = rrul_fill_Mly(g_tgt, nti, &g_rr);
	ASSERT(r <= nti, "rrul_fill_Mly: never returns more than asked for");
	ASSERT(count < 0 || r <= (size_t)count, "rrul_fill_Mly: never more than COUNT");
	if (k < r) {
		ASSERT(!echs_instant_lt_p(g_tgt[k], proto), "rrul_fill_Mly: no occurrence before DTSTART");
		ASSERT(!echs_instant_lt_p(until, g_tgt[k]), "rrul_fill_Mly: no occurrence after UNTIL");
		SENTINEL("Mly an occurrence");
	}
	SENTINEL("Mly");
}
