/* h_C02.c -- next_evfilt of evfilt.c: occurrences minus exceptions.
 * Child 0 = occurrence stream (RRULE u RDATE), child 1 = exception stream
 * (EXRULE u EXDATE), both abstract sorted streams (h_stream.h). */
#include "h_common.h"
#define HNS	2
#include "h_stream.h"
#include <stdlib.h>
int verif_diff_days, verif_diff_ms;
int verif_add_dd0, verif_add_msd0, verif_add_dd;
#include "instant.c"
#include "evfilt.c"

/* an occurrence is excluded iff its START equals the start of an exception
 * (property text; durations play no role) */
static bool spec_excluded(echs_event_t e, echs_range_t cur, unsigned xfrom)
{
	if (!echs_nul_range_p(cur) && cur.beg.u == e.from.u) {
		return true;
	}
	for (unsigned j = xfrom; j < HQ; j++) {
		if (!EV_NULL(h_q[1][j]) && h_q[1][j].from.u == e.from.u) {
			return true;
		}
	}
	return false;
}

void h_C02_next_evfilt(void)
{
	IN_QUEUE(0);
	IN_QUEUE(1);
	IN_BOOL(popp);
	/* all values are valid timed instants or date values of one kind, as one event produces them */
	IN_RANGE(int64_t, dur, 0, 86400000LL * 3);
	for (unsigned k = 0; k < HQ; k++) {
		ASSUME(EV_NULL(h_q[0][k]) || (I_VALID(h_q[0][k].from) && I_TIMED(h_q[0][k].from) && h_q[0][k].from.y <= 2098U));
		ASSUME(EV_NULL(h_q[1][k]) || (I_VALID(h_q[1][k].from) && I_TIMED(h_q[1][k].from) && h_q[1][k].from.y <= 2098U));
		/* strictly increasing streams (C16) */
		if (k) {
			ASSUME(EV_NULL(h_q[0][k]) || EV_LT(h_q[0][k - 1], h_q[0][k]));
			ASSUME(EV_NULL(h_q[1][k]) || EV_LT(h_q[1][k - 1], h_q[1][k]));
		}
		h_q[0][k].dur.d = EV_NULL(h_q[0][k]) ? 0 : dur;
		h_q[1][k].dur.d = EV_NULL(h_q[1][k]) ? 0 : dur;
	}
	ASSUME(!EV_NULL(h_q[1][0]));
	echs_evstrm_t f = make_evfilt((echs_evstrm_t)&h_child[0], (echs_evstrm_t)&h_child[1]);
	ASSUME(f != NULL);
	struct evfilt_s *this = (struct evfilt_s*)f;
	ASSERT(h_pops[1] == 1U && this->ex.beg.u == h_q[1][0].from.u, "make_evfilt: the first exception is loaded");

	/* the spec's answer: first occurrence not named by any exception */
	unsigned want = HQ;
	for (unsigned i = 0; i < HQ && want == HQ; i++) {
		if (EV_NULL(h_q[0][i])) {
			break;
		}
		if (!spec_excluded(h_q[0][i], this->ex, 1U)) {
			want = i;
		}
	}
	echs_event_t r = next_evfilt(f, popp);
	if (want < HQ) {
		ASSERT(r.from.u == h_q[0][want].from.u, "filter: delivers the first occurrence whose start no exception names - excluded ones (start equals an exception) are skipped, others are never dropped");
		ASSERT(h_pos[0] == want + (popp ? 1U : 0U) || h_pos[0] == HQ, "filter: peeking leaves the delivered occurrence in place, popping consumes exactly it");
		if (want > 0U) { SENTINEL("filter skipped an excluded occurrence"); }
		if (dur == 0) { SENTINEL("filter zero duration"); }
	} else {
		ASSERT(EV_NULL(r), "filter: when every remaining occurrence is excluded the stream ends");
		SENTINEL("filter all excluded");
	}
	SENTINEL("filter");
}
