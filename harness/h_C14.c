/* h_C14.c -- the time limit on its way daemon -> executor: vtodoify (echsd.c).
 * fdprnt.h (the buffered fd printer) is replaced by a ghost recorder for
 * this translation unit: it remembers the format string and the integer
 * argument of the DURATION line (trusted stub; libc's %d is not modelled). */
#include "h_common.h"
#include <spawn.h>
#include <string.h>
#include <stdarg.h>
#include <unistd.h>

#define INCLUDED_fdprnt_h_
static const char *g_dura_fmt;
static int g_dura_arg;
static unsigned g_dura_lines;
static int fdbang(int fd) { (void)fd; return 0; }
static ssize_t fdflush(void) { return 0; }
static int fdputc(int c) { (void)c; return 0; }
static ssize_t fdwrite(const char *str, size_t len) { (void)str; return (ssize_t)len; }
static int fdprintf(const char *fmt, ...)
{
	if (fmt[0] == 'D' && fmt[1] == 'U' && fmt[2] == 'R') {
		va_list ap;
		va_start(ap, fmt);
		g_dura_fmt = fmt;
		g_dura_arg = va_arg(ap, int);
		g_dura_lines++;
		va_end(ap);
	}
	return 1;
}
#define H_NOLOG
#include "h_echsd.h"

#if !defined REPLAY
/* the UID text is irrelevant to the DURATION line */
const char *obint_name(obint_t x) { (void)x; return "uid"; }
#endif
static struct echs_task_s g_tsk;
static struct _task_s g_t;

void h_C14_vtodoify(void)
{
	IN_RANGE(int64_t, dur, 0, 86400000LL * 400);
	static const char want[] = "DURATION:PT%dS\n";
	memset(&g_tsk, 0, sizeof(g_tsk));
	memset(&g_t, 0, sizeof(g_t));
	g_tsk.cmd = "true";
	g_t.t = &g_tsk;
	g_t.dur.d = dur;
	g_t.dflt_cred.wd = "/", g_t.dflt_cred.sh = "/bin/sh";
	(void)vtodoify(5, &g_t);
	ASSERT(g_dura_lines == 1U, "the execution request carries exactly one DURATION line");
	bool same = true;
	for (unsigned i = 0; i < sizeof(want); i++) {
		same = same && g_dura_fmt[i] == want[i];
	}
	ASSERT(same, "the DURATION line is an ISO 8601 duration in seconds (PT<n>S), the form the executor's parser accepts");
	/* ceil(dur / 1000) without dividing on the spec side */
	ASSERT((int64_t)g_dura_arg * 1000 >= dur && ((int64_t)g_dura_arg - 1) * 1000 < dur, "the seconds handed to the executor are the limit rounded up to whole seconds");
	if (dur % 1000 != 0) { SENTINEL("vtodoify sub-second part"); }
	SENTINEL("vtodoify");
}
