/* h_C11c.c -- cmd_http of echsd.c: a non-root requester only ever reads his
 * own queue file and only his own tasks are listed, whatever uid the request
 * path names.  System calls are stubs; the per-task printer is replaced by a
 * recording contract. */
#include "h_common.h"
#include <spawn.h>
#include <string.h>
#include <stdarg.h>
#include <sys/stat.h>
#include <stdio.h>
#include <stdlib.h>
#include <unistd.h>
#include <fcntl.h>
static int h_snprintf(char *s, size_t n, const char *fmt, unsigned u);
#if !defined REPLAY
# define snprintf	h_snprintf
#endif
#define H_NOLOG
#include "h_echsd.h"

static unsigned g_fn_uid, g_fn_calls;
static unsigned g_sent, g_sent_w;
static _task_t g_wtask;
static unsigned g_opens;
static const char *g_hdr;

#if !defined REPLAY
/* all snprintf calls of echsd.c take one integer argument after the format;
 * DFCC cannot instrument variadic functions, so the calls are redirected to
 * a fixed-arity recorder (the macro is defined just before echsd.c is read,
 * see below) */
static int h_snprintf(char *s, size_t n, const char *fmt, unsigned u)
{
	if (fmt[0] == 'e' && fmt[4] == 'q') {	/* "echsq_%u.ics" */
		g_fn_uid = u;
		g_fn_calls++;
	}
	if (n) { s[0] = '\0'; }
	return 1;
}
int fstatat(int d, const char *fn, struct stat *st, int fl) { (void)d; (void)fn; (void)fl; st->st_size = 0; return nondet_bool() ? 0 : -1; }
int openat(int d, const char *fn, int fl, ...) { (void)d; (void)fn; (void)fl; g_opens++; return nondet_bool() ? 9 : -1; }
int close(int fd) { (void)fd; return 0; }
ssize_t write(int fd, const void *b, size_t z) { (void)fd; g_hdr = g_hdr ? g_hdr : (const char*)b; return (ssize_t)z; }
ssize_t sendfile(int o, int i, off_t *off, size_t n) { (void)o; (void)i; (void)off; (void)n; return 0; }
const char *obint_name(obint_t x) { (void)x; return "uid"; }
#endif

static bool chkpntedp(uid_t u)
__CPROVER_assigns()
__CPROVER_ensures(__CPROVER_return_value == 0);
static void echs_http_send_sched(_task_t t, const char *uid, size_t uiz)
__CPROVER_assigns(g_sent, g_sent_w)
__CPROVER_ensures(g_sent == __CPROVER_old(g_sent) + 1U && g_sent_w == (__CPROVER_old(g_sent_w) + (t == g_wtask ? 1U : 0U)));

#define NSLOT	4U
static struct _task_s g_tasks[NSLOT];
static struct echs_task_s g_etasks[NSLOT];

void h_C11_cmd_http(void)
{
	IN_RANGE(unsigned, caller, 1, 69999);		/* non-root */
	IN(uint32_t, asked);				/* uid named in the path, ~0 if none */
	IN_RANGE(unsigned, rou, 0, 2);
	IN_RANGE(unsigned, own0, 0, 70000); IN_RANGE(unsigned, own1, 0, 70000);
	IN_RANGE(unsigned, own2, 0, 70000); IN_RANGE(unsigned, own3, 0, 70000);
	IN_RANGE(unsigned, used, 0, 15);
	IN_RANGE(unsigned, w, 0, NSLOT - 1);
	unsigned own[NSLOT] = {own0, own1, own2, own3};
	task_ht = calloc(NSLOT, sizeof(*task_ht));
	ASSUME(task_ht != NULL);
	ztask_ht = NSLOT;
	for (size_t i = 0; i < NSLOT; i++) {
		g_tasks[i].t = &g_etasks[i];
		g_etasks[i].owner = nummapstr_bang_num(own[i]);
		if ((used >> i) & 1U) {
			task_ht[i].oid = 0x10U + i;
			task_ht[i].t = &g_tasks[i];
		}
	}
	g_wtask = &g_tasks[w];
	g_fn_calls = g_sent = g_sent_w = g_opens = 0U;
	g_hdr = NULL;
	struct echs_cmd_http_s cmd = {.rou = rou, .uid = (uid_t)asked, .params = NULL, .paramz = 0U};
	ncred_t c = {.u = (uid_t)caller};
	(void)cmd_http(NULL, 5, &cmd, c);
	ASSERT(g_hdr != NULL, "every request gets a reply header");
	if (g_fn_calls) {
		ASSERT(g_fn_uid == caller, "a non-root requester's queue listing reads the queue file of his own uid only");
		SENTINEL("cmd_http queue file");
	}
	ASSERT(!g_opens || g_fn_uid == caller, "no other user's queue file is opened");
	if (g_sent_w) {
		ASSERT(((used >> w) & 1U) && own[w] == caller && g_sent_w == 1U, "a task is listed only to its owner, once");
		SENTINEL("cmd_http lists own task");
	}
	if (rou == ECHS_HTTP_SCHED && ((used >> w) & 1U) && own[w] == caller && g_hdr[9] == '2') {
		ASSERT(g_sent_w == 1U, "the schedule listing shows every task of the requester");
	}
	if (asked != ~0U && asked != caller && g_hdr[9] == '2') { SENTINEL("cmd_http other uid requested but not refused"); }
	SENTINEL("cmd_http");
}
