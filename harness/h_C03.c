/* h_C03.c -- next_evmux of evstrm.c against abstract sorted child streams */
#include "h_common.h"
#include "h_stream.h"
#include <stdlib.h>
#include "evstrm.c"

/* one call, HNS children, any cached state reachable by priming */
void h_C03_next_evmux(void)
{
	IN_QUEUE(0);
	IN_QUEUE(1);
#if HNS > 2
	IN_QUEUE(2);
#endif
#if HNS > 3
	IN_QUEUE(3);
#endif
#if HNS > 4
	IN_QUEUE(4);
#endif
#if HNS > 5
	IN_QUEUE(5);
#endif
#if HNS > 6
# error at most 6 constituents in this harness
#endif
	IN_BOOL(popp);
	IN_RANGE(size_t, w, 0, HNS - 1);	/* witness child */
	echs_evstrm_t *arr = malloc(HNS * sizeof(*arr));
	ASSUME(arr != NULL);
	for (size_t k = 0; k < HNS; k++) {
		arr[k] = (echs_evstrm_t)&h_child[k];
	}
	echs_evstrm_t mux = make_evmux(arr, HNS);
	ASSUME(mux != NULL);
	struct evmux_s *this = (struct evmux_s*)mux;
	echs_event_t head[HNS];
	bool all_null = true;
	for (size_t k = 0; k < HNS; k++) {
		head[k] = H_HEAD(k);
		all_null = all_null && EV_NULL(head[k]);
	}

	echs_event_t r = next_evmux(mux, popp);

	ASSERT(EV_NULL(r) == all_null, "mux: the stream ends (null event) exactly when every constituent has ended");
	if (!EV_NULL(r)) {
		/* (b) minimal among the heads, and it is one of them */
		ASSERT(EV_NULL(head[w]) || !EV_LT(head[w], r), "mux: the delivered occurrence is not later than any constituent's next occurrence (chronological)");
		bool is_head = false;
		unsigned npop = 0U;
		size_t b = HNS;
		for (size_t k = 0; k < HNS; k++) {
			if (!EV_NULL(head[k]) && head[k].from.u == r.from.u && head[k].oid == r.oid && b == HNS && (!popp || h_pops[k])) {
				b = k;
			}
			is_head = is_head || (!EV_NULL(head[k]) && head[k].from.u == r.from.u && head[k].oid == r.oid);
			npop += h_pops[k];
		}
		ASSERT(is_head, "mux: the delivered occurrence is the next occurrence of some constituent (nothing invented)");
		/* (c)/(d) who was consumed */
		ASSERT(h_pops[w] <= 1U, "mux: one call consumes at most one occurrence per constituent");
		if (h_pops[w] && !(popp && EV_EQ(head[w], r))) {
			/* consumed without being delivered: must be a duplicate of an earlier-indexed cached occurrence that stays or is delivered */
			bool dup = false;
			for (size_t j = 0; j < w; j++) {
				dup = dup || (!EV_NULL(head[j]) && EV_EQ(head[j], head[w]));
			}
			ASSERT(dup, "mux: an occurrence is consumed without being delivered only if it is identical (same start, same UID) to one of an earlier constituent");
		}
		if (!popp) {
			/* peeking: a second peek returns the same occurrence */
			echs_event_t r2 = next_evmux(mux, false);
			ASSERT(EV_EQ(r2, r), "mux: peeking does not consume - peeking again returns the same occurrence");
			SENTINEL("mux peek");
		} else {
			bool popped_r = false;
			for (size_t k = 0; k < HNS; k++) {
				popped_r = popped_r || (h_pops[k] && EV_EQ(head[k], r));
			}
			ASSERT(popped_r, "mux: popping consumes the delivered occurrence from its constituent");
			SENTINEL("mux pop");
		}
		/* (e) cache coherence */
		ASSERT(this->ev[w].from.u == H_HEAD(w).from.u && this->ev[w].oid == H_HEAD(w).oid, "mux: the cached next occurrence of every constituent is that constituent's current head");
		if (EV_EQ(head[0], head[1]) && !EV_NULL(head[0])) { SENTINEL("mux duplicate"); }
	} else {
		ASSERT(h_freed[w] == 1U && this->s == NULL, "mux: at the end every constituent is released exactly once");
		SENTINEL("mux end");
	}
	SENTINEL("mux");
}

/* constructors: memory safety of the varargs collectors and the vector form */
void h_C03_mux_ctor(void)
{
	IN_RANGE(unsigned, nargs, 1, 5);
	for (size_t k = 0; k < HNS; k++) {
		h_child[k].idx = k;
	}
	echs_evstrm_t s0 = (echs_evstrm_t)&h_child[0], s1 = (echs_evstrm_t)&h_child[1 % HNS], s2 = (echs_evstrm_t)&h_child[2 % HNS];
	echs_evstrm_t m;
	switch (nargs) {
	case 1: m = echs_evstrm_mux_clon(s0, NULL); break;
	case 2: m = echs_evstrm_mux_clon(s0, s1, NULL); break;
	case 3: m = echs_evstrm_mux_clon(s0, s1, s2, NULL); break;
	case 4: m = echs_evstrm_mux_clon(s0, s1, s2, s0, NULL); break;
	default: m = echs_evstrm_mux_clon(s0, s1, s2, s0, s1, NULL); break;
	}
	if (m != NULL && nargs >= 2U) {
		struct evmux_s *this = (struct evmux_s*)m;
		ASSERT(this->ns == nargs, "mux constructor: every stream passed is a constituent");
		ASSERT(this->s[nargs - 1U] == (nargs == 2U ? s1 : nargs == 3U ? s2 : nargs == 4U ? s0 : s1) && this->s[0] == s0, "mux constructor: constituents are kept in order");
		SENTINEL("mux ctor several");
	}
	if (nargs >= 4U) { SENTINEL("mux ctor four or more"); }
	SENTINEL("mux ctor");
}
