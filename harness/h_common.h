/* h_common.h -- helpers shared by the harnesses */
#if !defined INCLUDED_h_common_h_
#define INCLUDED_h_common_h_
#include "verif.h"
#include "spec_cal.h"

/* declares the 7 scalar inputs of an instant and builds it;
 * constrained to a VALID instant of the given kind by the caller */
#define IN_INSTANT_FIELDS(p)				\
	IN_RANGE(unsigned, p##_y, 1901, 2099);		\
	IN_RANGE(unsigned, p##_m, 1, 12);		\
	IN_RANGE(unsigned, p##_d, 1, 31);		\
	IN_RANGE(unsigned, p##_H, 0, 255);		\
	IN_RANGE(unsigned, p##_M, 0, 59);		\
	IN_RANGE(unsigned, p##_S, 0, 59);		\
	IN_RANGE(unsigned, p##_ms, 0, 1023);		\
	echs_instant_t p = {.y = p##_y, .m = p##_m, .d = p##_d, .H = p##_H, .M = p##_M, .S = p##_S, .ms = p##_ms}


/* raw instant: every field over its whole bit width */
#define IN_RAW_INSTANT(p)				\
	IN_RANGE(unsigned, p##_y, 0, 65535);		\
	IN_RANGE(unsigned, p##_m, 0, 255);		\
	IN_RANGE(unsigned, p##_d, 0, 255);		\
	IN_RANGE(unsigned, p##_H, 0, 255);		\
	IN_RANGE(unsigned, p##_M, 0, 255);		\
	IN_RANGE(unsigned, p##_S, 0, 63);		\
	IN_RANGE(unsigned, p##_ms, 0, 1023);		\
	echs_instant_t p = {.y = p##_y, .m = p##_m, .d = p##_d, .H = p##_H, .M = p##_M, .S = p##_S, .ms = p##_ms}

#endif
