/* h_C05s.c -- SHIFT survives serialisation: send_rrul's text form of a shift,
 * read back by snarf_shift, is the same shift (C05, C17).
 * The fd printer is replaced by a recorder that keeps the characters of the
 * SHIFT part and, for every %d / %u, a placeholder digit plus the VALUE
 * printed; strtol is replaced by a stub that steps over an optional sign and
 * the digits and returns the recorded values in order (libc formatting and
 * number reading trusted). */
#include "h_common.h"
#include <stdlib.h>
#include <string.h>
#include <unistd.h>
#include <stdint.h>

#if !defined SH_DSIGN
# define SH_DSIGN	0
# define SH_BPART	1
# define SH_NEG	0
# define SH_BZERO	0
# define SH_INV	0
#endif
#define H_DNEG	(SH_DSIGN < 0)
static char g_txt[40];
static unsigned g_len;
static bool g_cap;
static long g_nums[4];
static unsigned g_nprn, g_nrd;
static unsigned g_overflow;

static void h_put(char c)
{
	if (g_len + 1U < sizeof(g_txt)) {
		g_txt[g_len++] = c;
		g_txt[g_len] = '\0';
	} else {
		g_overflow++;
	}
}
#define INCLUDED_fdprnt_h_
static int fdbang(int fd) { (void)fd; return 0; }
static ssize_t fdflush(void) { return 0; }
static int fdputc(int c)
{
	if (c == '\n') {
		g_cap = false;	/* end of the RRULE line */
	}
	if (g_cap) {
		h_put((char)c);
	}
	return 0;
}
static ssize_t fdwrite(const char *str, size_t len)
{
	if (len >= 7U && str[0] == ';' && str[1] == 'S' && str[2] == 'H' && str[3] == 'I') {
		g_cap = true;	/* ";SHIFT=" opens the part */
	} else if (len && str[0] == ';') {
		g_cap = false;	/* the next part closes it */
	}
	return (ssize_t)len;
}
static int h_fdp(const char *fmt, intptr_t a)
{
	if (fmt[0] == ';' || fmt[0] == '\n') {
		g_cap = false;
	}
	if (g_cap && fmt[0] == '%' && (fmt[1] == 'd' || fmt[1] == 'u') && fmt[2] == '\0') {
		long v = fmt[1] == 'd' ? (long)(int)a : (long)(unsigned)a;
		/* %d is the day amount, its sign is fixed by the obligation's layout (keeps the text concrete) */
		ASSERT((v < 0) == (fmt[1] == 'd' && H_DNEG), "the number printed has the sign of this layout");
		if (fmt[1] == 'd' && H_DNEG) {
			h_put('-');
		}
		h_put('1');	/* placeholder digit */
		if (g_nprn < 4U) {
			g_nums[g_nprn] = v;
		}
		g_nprn++;
	}
	return 1;
}
#define H_FDP(fmt, a, ...)	h_fdp(fmt, (intptr_t)(a))
#define fdprintf(fmt, args...)	H_FDP(fmt, ## args, 0)

static long h_strtol(const char *s, char **on, int base)
{
	(void)base;
	if (*s == '-' || *s == '+') {
		s++;
	}
	while (*s >= '0' && *s <= '9') {
		s++;
	}
	if (on != NULL) {
		*on = (char*)s;
	}
	long v = g_nrd < 4U ? g_nums[g_nrd] : 0L;
	g_nrd++;
	return v;
}
#define strtol	h_strtol
#include "evical.c"
const char *obint_name(obint_t x) { (void)x; return "uid"; }
size_t dt_strf_ical(char *restrict buf, size_t bsz, echs_instant_t inst) { (void)buf; (void)bsz; (void)inst; return 0U; }

/* the layout of the text is fixed per obligation (sign of the day amount, with
 * or without a business-day part, its direction, zero or not, B+/B- flag) so
 * that the parser runs on a concrete string; the amounts are symbolic */
#if !defined SH_DSIGN
# define SH_DSIGN	0
# define SH_BPART	1
# define SH_NEG	0
# define SH_BZERO	0
# define SH_INV	0
#endif
void h_C05_shift_text(void)
{
	static struct rrulsp_s rr;
	IN_RANGE(int, dmag, 1, 366);
	IN_RANGE(unsigned, bmag, 1, 366);
	const int d = SH_DSIGN * dmag;
	const unsigned b = SH_BZERO ? 0U : bmag;
	const bool neg = SH_NEG, inv = SH_BZERO ? true : SH_INV;
	memset(&rr, 0, sizeof(rr));
	rr.freq = FREQ_YEARLY, rr.count = -1, rr.inter = 1U, rr.until.u = ~0ULL;
	const echs_shift_t sh = (echs_shift_t)(((unsigned)d << 16U) ^ (SH_BPART ? ((b << 2U) | ((unsigned)inv << 1U) | (unsigned)neg) : 0U));
	ASSUME(sh != 0);
	rr.shift = sh;
	g_len = 0U, g_cap = false, g_nprn = g_nrd = 0U, g_overflow = 0U;
	g_txt[0] = '\0';
	send_rrul(5, &rr, 0U);
	ASSERT(g_overflow == 0U && g_len > 0U, "the SHIFT part is written");
	echs_shift_t back = snarf_shift(g_txt);
	ASSERT(g_nrd == g_nprn, "every number written is read back, none else");
	ASSERT(back == sh, "SHIFT as written reads back as the same shift (days, business days, direction and the B+/B- flag; -0B included)");
	SENTINEL("shift text");
}
