/* h_C11b.c -- cmd_ical of echsd.c: one reply per instruction, matching what
 * happened; the user is noted for checkpointing iff something succeeded.
 * The instruction source (echs_evical_pull) is a scripted stub of up to 3
 * instructions; _inject_task1 / _eject_task1 / cmd_ical_rpl / add_chkpnt are
 * replaced by contracts that record outcome and call order. */
#include "h_common.h"
#include <spawn.h>
#include <string.h>
#define H_NOLOG
#include "h_echsd.h"

#define NI	3
static echs_instruc_t g_ins[NI + 1];
static unsigned g_pulled;
static int g_rc[NI];		/* scripted outcome of the i-th inject/eject */
static unsigned g_ops;		/* inject/eject calls so far */
static unsigned g_replies, g_succ_replies, g_fail_replies, g_flushes, g_notes;
static unsigned g_w;		/* witness instruction index */
static int g_w_reply;		/* verb of the witness instruction's reply, -1 = none */
static uid_t g_noted;

#if !defined REPLAY
echs_instruc_t echs_evical_pull(ical_parser_t p[static 1U]) { (void)p; echs_instruc_t r = g_ins[g_pulled]; if (g_pulled < NI) { g_pulled++; } return r; }
#endif

static int _inject_task1(struct ev_loop *l, echs_task_t t, uid_t u)
__CPROVER_assigns(g_ops)
__CPROVER_ensures(g_ops == __CPROVER_old(g_ops) + 1U && __CPROVER_return_value == g_rc[__CPROVER_old(g_ops) % NI]);
static int _eject_task1(struct ev_loop *l, echs_toid_t oid, uid_t uid)
__CPROVER_assigns(g_ops)
__CPROVER_ensures(g_ops == __CPROVER_old(g_ops) + 1U && __CPROVER_return_value == g_rc[__CPROVER_old(g_ops) % NI]);
static ssize_t cmd_ical_rpl(int ofd, echs_instruc_t ins)
__CPROVER_assigns(g_replies, g_succ_replies, g_fail_replies, g_flushes, g_w_reply)
__CPROVER_ensures(ins.v == INSVERB_UNK ?
	(g_flushes == __CPROVER_old(g_flushes) + 1U && g_replies == __CPROVER_old(g_replies) && g_w_reply == __CPROVER_old(g_w_reply) &&
	 g_succ_replies == __CPROVER_old(g_succ_replies) && g_fail_replies == __CPROVER_old(g_fail_replies)) :
	(g_replies == __CPROVER_old(g_replies) + 1U && g_flushes == __CPROVER_old(g_flushes) &&
	 g_succ_replies == __CPROVER_old(g_succ_replies) + (ins.v == INSVERB_SUCC ? 1U : 0U) &&
	 g_fail_replies == __CPROVER_old(g_fail_replies) + (ins.v == INSVERB_FAIL ? 1U : 0U) &&
	 g_w_reply == (__CPROVER_old(g_replies) == g_w ? (int)ins.v : __CPROVER_old(g_w_reply))))
__CPROVER_ensures(__CPROVER_return_value >= 0 && __CPROVER_return_value <= 4096);
static void add_chkpnt(uid_t u)
__CPROVER_assigns(g_notes, g_noted)
__CPROVER_ensures(g_notes == __CPROVER_old(g_notes) + 1U && g_noted == u);

static struct echs_task_s g_tk;

void h_C11_cmd_ical(void)
{
	IN_RANGE(unsigned, v0, 0, 4); IN_RANGE(unsigned, v1, 0, 4); IN_RANGE(unsigned, v2, 0, 4);
	IN_RANGE(int, rc0, -1, 0); IN_RANGE(int, rc1, -1, 0); IN_RANGE(int, rc2, -1, 0);
	IN_RANGE(unsigned, w, 0, NI - 1);
	IN_RANGE(unsigned, uid, 0, 70000);
	unsigned vs[NI] = {v0, v1, v2};
	/* only schedule / cancel instructions and the end marker occur here */
	for (unsigned i = 0; i < NI; i++) {
		ASSUME(vs[i] == INSVERB_UNK || vs[i] == INSVERB_SCHE || vs[i] == INSVERB_UNSC);
		g_ins[i] = (echs_instruc_t){.v = (echs_insverb_t)vs[i], .o = 0x10U + i, .t = &g_tk};
	}
	g_ins[NI] = (echs_instruc_t){.v = INSVERB_UNK};
	g_rc[0] = rc0, g_rc[1] = rc1, g_rc[2] = rc2;
	g_w = w, g_w_reply = -1;
	g_pulled = g_ops = g_replies = g_succ_replies = g_fail_replies = g_flushes = g_notes = 0U;
	ncred_t cred = {.u = (uid_t)uid};
	ical_parser_t pa = NULL;
	(void)cmd_ical(NULL, 5, &pa, cred);
	/* what should have happened: instructions up to the first end marker */
	unsigned n = 0U, nsucc = 0U;
	for (unsigned i = 0; i < NI && vs[i] != INSVERB_UNK; i++) {
		n++;
		nsucc += g_rc[i] == 0;
	}
	ASSERT(g_ops == n && g_replies == n, "every schedule/cancel instruction is carried out once and answered by exactly one reply");
	ASSERT(g_succ_replies == nsucc && g_fail_replies == n - nsucc, "as many success replies as instructions that succeeded, failure replies for the others");
	if (w < n) {
		ASSERT(g_w_reply == (g_rc[w] == 0 ? (int)INSVERB_SUCC : (int)INSVERB_FAIL), "the reply to an instruction says what happened to that instruction");
		SENTINEL("cmd_ical witness reply");
	}
	ASSERT(g_flushes == 1U, "the replies are flushed once at the end");
	ASSERT(g_notes == (nsucc ? 1U : 0U) && (!nsucc || g_noted == (uid_t)uid), "the user is noted for the next checkpoint iff at least one of his instructions succeeded (also when a later one failed)");
	if (n == 3U && g_rc[0] == 0 && g_rc[2] != 0) { SENTINEL("cmd_ical success then failure"); }
	SENTINEL("cmd_ical");
}
