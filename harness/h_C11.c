/* h_C11.c -- the daemon's queue as a map from task oid to task (echsd.c) */
#include "h_common.h"
#include <spawn.h>
#include <string.h>
#include <stdlib.h>
#define H_NOLOG
#include "h_echsd.h"

#if !defined REPLAY
int snprintf(char *s, size_t n, const char *fmt, ...) { (void)fmt; if (n) { s[0] = '\0'; } return 1; }
static unsigned g_stops;
void ev_periodic_stop(struct ev_loop *l, ev_periodic *w) { (void)l; (void)w; g_stops++; }
static unsigned g_tfrees;
void free_echs_task(echs_task_t t) { (void)t; g_tfrees++; }
#endif

#define NSLOT	16U
#if !defined GROW_MASK
# define GROW_MASK	0x3fU	/* growth to at most 64 slots */
#endif
static struct _task_s g_tasks[NSLOT];
static struct echs_task_s g_etasks[NSLOT];

#define IN16(p)	IN(uint64_t, p##0); IN(uint64_t, p##1); IN(uint64_t, p##2); IN(uint64_t, p##3); IN(uint64_t, p##4); IN(uint64_t, p##5); IN(uint64_t, p##6); IN(uint64_t, p##7); \
	IN(uint64_t, p##8); IN(uint64_t, p##9); IN(uint64_t, p##10); IN(uint64_t, p##11); IN(uint64_t, p##12); IN(uint64_t, p##13); IN(uint64_t, p##14); IN(uint64_t, p##15); \
	uint64_t p[NSLOT] = {p##0, p##1, p##2, p##3, p##4, p##5, p##6, p##7, p##8, p##9, p##10, p##11, p##12, p##13, p##14, p##15}

/* a well-formed 16-slot table: every non-empty slot i holds an oid with oid % 16 == i */
#define BUILD_TABLE(o)								\
	task_ht = calloc(NSLOT, sizeof(*task_ht));				\
	ASSUME(task_ht != NULL);						\
	ztask_ht = NSLOT;							\
	for (size_t i = 0; i < NSLOT; i++) {					\
		ASSUME(o[i] == 0U || (o[i] & (NSLOT - 1U)) == i);		\
		task_ht[i].oid = o[i];						\
		task_ht[i].t = o[i] ? &g_tasks[i] : NULL;			\
		g_tasks[i].t = &g_etasks[i];					\
		g_etasks[i].oid = o[i];						\
	}

/* abstract lookup written from the map reading: the task stored under key k */
static _task_t spec_lookup(uint64_t k)
{
	for (size_t i = 0; i < ztask_ht; i++) {
		if (task_ht[i].oid == k) {
			return task_ht[i].t;
		}
	}
	return NULL;
}

void h_C11_put_slot(void)
{
	IN16(o);
	IN(uint64_t, oid);
	IN(uint64_t, k);
	BUILD_TABLE(o);
	ASSUME(oid != 0U && k != 0U && k != oid);
#if defined PAIR_T
	/* growth path: the colliding pair is concrete so that the new table
	 * size is a constant (a calloc of symbolic size exhausts the solver),
	 * the other 15 slots and the witness key stay symbolic */
	ASSUME(oid == PAIR_O);
	task_ht[PAIR_T & (NSLOT - 1U)].oid = PAIR_T;
	task_ht[PAIR_T & (NSLOT - 1U)].t = &g_tasks[PAIR_T & (NSLOT - 1U)];
	g_etasks[PAIR_T & (NSLOT - 1U)].oid = PAIR_T;
#elif defined HOME_SAME
	/* the key is in the table already (concrete key, see above) */
	ASSUME(oid == 0x15ULL);
	task_ht[5].oid = 0x15ULL;
	task_ht[5].t = &g_tasks[5];
#else
	/* the home slot (slot 5) is empty, the key itself is symbolic */
	ASSUME((oid & (NSLOT - 1U)) == 5U);
	task_ht[5].oid = 0U;
	task_ht[5].t = NULL;
#endif
	_task_t kt = spec_lookup(k);
	ASSERT(get_task(k) == kt, "get_task(k) is the task stored under k (or none)");
	ssize_t s = put_task_slot((echs_toid_t)oid);
	if (s >= 0) {
		ASSERT((size_t)s < ztask_ht && (size_t)s == (oid & (ztask_ht - 1U)), "put: the slot returned is the home slot of the key");
		ASSERT(task_ht[s].oid == 0U || task_ht[s].oid == oid, "put: the slot returned is empty or already holds the key (never another task's)");
		ASSERT(get_task(k) == kt, "put: every other key still maps to the same task (also across a growth of the table)");
#if defined PAIR_T
		ASSERT(ztask_ht > NSLOT, "put: a collision grows the table");
		SENTINEL("put grew the table");
#endif
		SENTINEL("put slot");
	} else {
		ASSERT(ztask_ht == NSLOT && get_task(k) == kt, "put: on failure the table is unchanged");
#if defined PAIR_T
		SENTINEL("put failed");
#endif
	}
	SENTINEL("put");
}

/* cancelling: only the owner's request removes the task, and exactly that task */
void h_C11_eject(void)
{
	IN16(o);
	IN(uint64_t, oid);
	IN(uint64_t, k);
	IN_RANGE(unsigned, owner, 0, 70000);
	IN_RANGE(unsigned, requester, 0, 70000);
	BUILD_TABLE(o);
	ASSUME(oid != 0U && k != 0U && k != oid);
	size_t home = oid & (NSLOT - 1U);
	g_etasks[home].owner = nummapstr_bang_num(owner);
	_task_t kt = spec_lookup(k);
	_task_t ot = spec_lookup(oid);
	g_stops = 0U;
	int r = _eject_task1(NULL, (echs_toid_t)oid, (uid_t)requester);
	if (ot == NULL) {
		ASSERT(r < 0, "cancel of an unknown task fails");
		SENTINEL("eject unknown");
	} else if (owner != requester) {
		ASSERT(r < 0 && get_task(oid) == ot && g_stops == 0U, "cancel by another user fails and leaves the task scheduled and in the queue");
		SENTINEL("eject foreign");
	} else {
		ASSERT(r == 0 && get_task(oid) == NULL && g_stops == 1U, "cancel by the owner stops and removes the task");
		SENTINEL("eject own");
	}
	ASSERT(get_task(k) == kt, "cancel never touches another task");
	SENTINEL("eject");
}

/* ---- adding / replacing a task: _inject_task1
 * getpwuid is a stub: every uid below 70000 exists (home "/", shell "sh").
 * Two concrete home-slot situations keep the table size constant (see
 * put_slot): the key 0x15 is already queued (replace path), or slot 5 is
 * empty (new task). */
#if !defined REPLAY
# include <pwd.h>
static struct passwd g_pw;
struct passwd *getpwuid(uid_t u) { if (u >= 70000U) { return NULL; } g_pw.pw_uid = u; g_pw.pw_gid = u; g_pw.pw_dir = "/"; g_pw.pw_shell = "sh"; return &g_pw; }
struct passwd *getpwnam(const char *n) { (void)n; return NULL; }
static unsigned g_starts;
void ev_periodic_start(struct ev_loop *l, ev_periodic *w) { (void)l; (void)w; g_starts++; }
int echs_task_rset_ownr(echs_task_t t, unsigned int uid) { ((struct echs_task_s*)deconst(t))->owner = nummapstr_bang_num(uid); return 0; }
#endif
static struct echs_task_s g_new;
static struct _task_s g_spare;
static struct { echs_evstrm_class_t class; } g_strm;

void h_C11_inject(void)
{
	IN16(o);
	IN(uint64_t, k);
	IN_RANGE(unsigned, owner, 0, 69999);	/* owner of the queued task (replace path) */
	IN_RANGE(unsigned, requester, 0, 69999);
	IN_RANGE(size_t, nsim, 0, 62);
	IN_BOOL(has_strm);
	BUILD_TABLE(o);
#if defined HOME_SAME
	const uint64_t oid = 0x15ULL;
	task_ht[5].oid = oid;
	task_ht[5].t = &g_tasks[5];
	g_etasks[5].oid = oid;
	g_etasks[5].owner = nummapstr_bang_num(owner);
	g_tasks[5].nsim = nsim;
	g_tasks[5].dflt_cred.wd = NULL, g_tasks[5].dflt_cred.sh = NULL;
#else
	const uint64_t oid = 0x25ULL;	/* concrete key, home slot 5 (keeps the table size a constant) */
	task_ht[5].oid = 0U;
	task_ht[5].t = NULL;
#endif
	ASSUME(k != 0U && k != oid);
	free_tasks = &g_spare, nfree_tasks = 1U;
	memset(&g_new, 0, sizeof(g_new));
	g_new.oid = oid;
	g_new.owner = NUMMAPSTR_NAN;	/* the submitted text names no owner: the connection's uid counts */
	g_new.strm = has_strm ? (echs_evstrm_t)&g_strm : NULL;
	memset(&meself, 0, sizeof(meself));	/* the daemon runs as root */
	_task_t kt = spec_lookup(k);
	_task_t ot = spec_lookup(oid);
	g_stops = g_starts = g_tfrees = 0U;
	int r = _inject_task1(NULL, &g_new, (uid_t)requester);
	ASSERT(get_task(k) == kt, "add/replace never touches another task");
	if (!has_strm) {
		ASSERT(r < 0 && get_task(oid) == ot && g_starts == 0U && g_stops == 0U, "an object without occurrences is refused and changes nothing");
		SENTINEL("inject no stream");
	} else if (ot != NULL && owner != requester) {
		ASSERT(r < 0, "a request from user A for a UID queued by user B is refused");
		ASSERT(get_task(oid) == ot && ot->t == &g_etasks[5] && g_stops == 0U && g_tfrees == 0U && g_starts == 0U, "... and B's task stays queued, scheduled and untouched");
#if defined HOME_SAME
		SENTINEL("inject foreign");
#endif
	} else if (ot != NULL) {
		ASSERT(r == 0 && get_task(oid) == ot && ot->t == &g_new, "adding an existing UID of the same owner replaces the task in place");
		ASSERT(g_stops == 1U && g_starts == 1U && g_tfrees == 1U, "the old schedule is stopped and released, the new one started");
		ASSERT(ot->nsim == nsim, "replacing a task keeps the count of its executions still running");
		ASSERT(echs_task_owner(&g_new) == requester, "the replaced task is owned by the requester");
#if defined HOME_SAME
		SENTINEL("inject replace");
#endif
	} else {
		ASSERT(r == 0 && get_task(oid) == &g_spare && g_spare.t == &g_new && g_starts == 1U, "adding a new UID queues and schedules the task");
		ASSERT(echs_task_owner(&g_new) == requester && g_spare.dflt_cred.u == requester, "the new task is owned by and runs as the requester");
#if !defined HOME_SAME
		SENTINEL("inject new");
#endif
	}
	SENTINEL("inject");
}
