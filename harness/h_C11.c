/* h_C11.c -- the daemon's queue as a map from task oid to task (echsd.c) */
#include "h_common.h"
#include <spawn.h>
#include <string.h>
#include <stdlib.h>
#define H_NOLOG
#include "h_echsd.h"

#if !defined REPLAY
int snprintf(char *s, size_t n, const char *fmt, ...) { (void)fmt; if (n) { s[0] = '\0'; } return 1; }
static unsigned g_stops;
void ev_periodic_stop(struct ev_loop *l, ev_periodic *w) { (void)l; (void)w; g_stops++; }
static unsigned g_tfrees;
void free_echs_task(echs_task_t t) { (void)t; g_tfrees++; }
#endif

#define NSLOT	16U
#if !defined GROW_MASK
# define GROW_MASK	0x3fU	/* growth to at most 64 slots */
#endif
static struct _task_s g_tasks[NSLOT];
static struct echs_task_s g_etasks[NSLOT];

#define IN16(p)	IN(uint64_t, p##0); IN(uint64_t, p##1); IN(uint64_t, p##2); IN(uint64_t, p##3); IN(uint64_t, p##4); IN(uint64_t, p##5); IN(uint64_t, p##6); IN(uint64_t, p##7); \
	IN(uint64_t, p##8); IN(uint64_t, p##9); IN(uint64_t, p##10); IN(uint64_t, p##11); IN(uint64_t, p##12); IN(uint64_t, p##13); IN(uint64_t, p##14); IN(uint64_t, p##15); \
	uint64_t p[NSLOT] = {p##0, p##1, p##2, p##3, p##4, p##5, p##6, p##7, p##8, p##9, p##10, p##11, p##12, p##13, p##14, p##15}

/* a well-formed 16-slot table: every non-empty slot i holds an oid with oid % 16 == i */
#define BUILD_TABLE(o)								\
	task_ht = calloc(NSLOT, sizeof(*task_ht));				\
	ASSUME(task_ht != NULL);						\
	ztask_ht = NSLOT;							\
	for (size_t i = 0; i < NSLOT; i++) {					\
		ASSUME(o[i] == 0U || (o[i] & (NSLOT - 1U)) == i);		\
		task_ht[i].oid = o[i];						\
		task_ht[i].t = o[i] ? &g_tasks[i] : NULL;			\
		g_tasks[i].t = &g_etasks[i];					\
		g_etasks[i].oid = o[i];						\
	}

/* abstract lookup written from the map reading: the task stored under key k */
static _task_t spec_lookup(uint64_t k)
{
	for (size_t i = 0; i < ztask_ht; i++) {
		if (task_ht[i].oid == k) {
			return task_ht[i].t;
		}
	}
	return NULL;
}

void h_C11_put_slot(void)
{
	IN16(o);
	IN(uint64_t, oid);
	IN(uint64_t, k);
	BUILD_TABLE(o);
	ASSUME(oid != 0U && k != 0U && k != oid);
#if defined PAIR_T
	/* growth path: the colliding pair is concrete so that the new table
	 * size is a constant (a calloc of symbolic size exhausts the solver),
	 * the other 15 slots and the witness key stay symbolic */
	ASSUME(oid == PAIR_O);
	task_ht[PAIR_T & (NSLOT - 1U)].oid = PAIR_T;
	task_ht[PAIR_T & (NSLOT - 1U)].t = &g_tasks[PAIR_T & (NSLOT - 1U)];
	g_etasks[PAIR_T & (NSLOT - 1U)].oid = PAIR_T;
#elif defined HOME_SAME
	/* the key is in the table already (concrete key, see above) */
	ASSUME(oid == 0x15ULL);
	task_ht[5].oid = 0x15ULL;
	task_ht[5].t = &g_tasks[5];
#else
	/* the home slot (slot 5) is empty, the key itself is symbolic */
	ASSUME((oid & (NSLOT - 1U)) == 5U);
	task_ht[5].oid = 0U;
	task_ht[5].t = NULL;
#endif
	_task_t kt = spec_lookup(k);
	ASSERT(get_task(k) == kt, "get_task(k) is the task stored under k (or none)");
	ssize_t s = put_task_slot((echs_toid_t)oid);
	if (s >= 0) {
		ASSERT((size_t)s < ztask_ht && (size_t)s == (oid & (ztask_ht - 1U)), "put: the slot returned is the home slot of the key");
		ASSERT(task_ht[s].oid == 0U || task_ht[s].oid == oid, "put: the slot returned is empty or already holds the key (never another task's)");
		ASSERT(get_task(k) == kt, "put: every other key still maps to the same task (also across a growth of the table)");
#if defined PAIR_T
		ASSERT(ztask_ht > NSLOT, "put: a collision grows the table");
		SENTINEL("put grew the table");
#endif
		SENTINEL("put slot");
	} else {
		ASSERT(ztask_ht == NSLOT && get_task(k) == kt, "put: on failure the table is unchanged");
#if defined PAIR_T
		SENTINEL("put failed");
#endif
	}
	SENTINEL("put");
}

/* cancelling: only the owner's request removes the task, and exactly that task */
void h_C11_eject(void)
{
	IN16(o);
	IN(uint64_t, oid);
	IN(uint64_t, k);
	IN_RANGE(unsigned, owner, 0, 70000);
	IN_RANGE(unsigned, requester, 0, 70000);
	BUILD_TABLE(o);
	ASSUME(oid != 0U && k != 0U && k != oid);
	size_t home = oid & (NSLOT - 1U);
	g_etasks[home].owner = nummapstr_bang_num(owner);
	_task_t kt = spec_lookup(k);
	_task_t ot = spec_lookup(oid);
	g_stops = 0U;
	int r = _eject_task1(NULL, (echs_toid_t)oid, (uid_t)requester);
	if (ot == NULL) {
		ASSERT(r < 0, "cancel of an unknown task fails");
		SENTINEL("eject unknown");
	} else if (owner != requester) {
		ASSERT(r < 0 && get_task(oid) == ot && g_stops == 0U, "cancel by another user fails and leaves the task scheduled and in the queue");
		SENTINEL("eject foreign");
	} else {
		ASSERT(r == 0 && get_task(oid) == NULL && g_stops == 1U, "cancel by the owner stops and removes the task");
		SENTINEL("eject own");
	}
	ASSERT(get_task(k) == kt, "cancel never touches another task");
	SENTINEL("eject");
}
