/* h_C20.c -- sorting: comparator axioms (all bit patterns) and the sort of
 * instants (instant.c + wikisort.c, real translation units) */
#include "h_common.h"
#include "spec_instant.h"
int verif_diff_days, verif_diff_ms;
int verif_add_dd0, verif_add_msd0, verif_add_dd;
#include "instant.c"

/* strict weak order on ALL 2^64 bit patterns, sentinels and their wrap included */
void h_C20_lt_axioms(void)
{
	IN(uint64_t, au); IN(uint64_t, bu); IN(uint64_t, cu);
	echs_instant_t a = {.u = au}, b = {.u = bu}, c = {.u = cu};
	bool ab = echs_instant_lt_p(a, b), ba = echs_instant_lt_p(b, a);
	bool bc = echs_instant_lt_p(b, c), cb = echs_instant_lt_p(c, b);
	bool ac = echs_instant_lt_p(a, c), ca = echs_instant_lt_p(c, a);
	ASSERT(!echs_instant_lt_p(a, a), "lt_p is irreflexive");
	ASSERT(!(ab && ba), "lt_p is asymmetric");
	ASSERT(!(ab && bc) || ac, "lt_p is transitive");
	ASSERT(!(!ab && !ba && !bc && !cb) || (!ac && !ca), "incomparability under lt_p is transitive");
	ASSERT((!ab && !ba) == (au == bu), "two instants are incomparable only if they are identical (a total order on bit patterns)");
	ASSERT(echs_instant_le_p(a, b) == !ba, "le_p is the complement of the converse of lt_p");
	SENTINEL("lt axioms");
}

#if !defined SORT_N
# define SORT_N	6
#endif
/* bounded stand-in: the whole sort on n <= SORT_N symbolic 64-bit keys */
void h_C20_sort_instants(void)
{
	echs_instant_t a[SORT_N], o[SORT_N];
	const size_t n = SORT_N;	/* concrete length: keeps symex on the branch WikiSort takes for it */
	IN(uint64_t, k0); IN(uint64_t, k1); IN(uint64_t, k2); IN(uint64_t, k3); IN(uint64_t, k4); IN(uint64_t, k5);
#if SORT_N > 6
	IN(uint64_t, k6); IN(uint64_t, k7); IN(uint64_t, k8); IN(uint64_t, k9);
	uint64_t ks[] = {k0, k1, k2, k3, k4, k5, k6, k7, k8, k9};
#else
	uint64_t ks[] = {k0, k1, k2, k3, k4, k5};
#endif
	IN_RANGE(size_t, w, 0, SORT_N - 1);	/* witness slot */
	for (size_t i = 0; i < SORT_N; i++) {
		a[i].u = o[i].u = ks[i];
	}
	echs_instant_sort(a, n);
	/* ordered */
	for (size_t i = 0; i + 1 < n; i++) {
		ASSERT(!echs_instant_lt_p(a[i + 1], a[i]), "sorted: no element is smaller than its predecessor");
	}
	/* permutation: the witness value occurs as often after as before */
	if (w < n) {
		size_t cb = 0, ca = 0;
		for (size_t i = 0; i < n; i++) {
			cb += o[i].u == o[w].u;
			ca += a[i].u == o[w].u;
		}
		ASSERT(ca == cb, "permutation: every value occurs as often after the sort as before");
	}
	/* nothing beyond n is touched */
	for (size_t i = n; i < SORT_N; i++) {
		ASSERT(a[i].u == o[i].u, "frame: elements beyond the length are untouched");
	}
	SENTINEL("sort instants");
}

/* binary searches of the sort: contracts enforced by DFCC with an array of
 * symbolic length (frame variant) - any n up to 2^20 */
static size_t BinaryFirst(const echs_instant_t *restrict array, const echs_instant_t value, const Range range)
__CPROVER_requires(range.start <= range.end && range.end <= (1UL << 20) && __CPROVER_is_fresh(array, range.end * sizeof(*array)))
__CPROVER_assigns()
__CPROVER_ensures(range.start <= __CPROVER_return_value && __CPROVER_return_value <= range.end);
static size_t BinaryLast(const echs_instant_t *restrict array, const echs_instant_t value, const Range range)
__CPROVER_requires(range.start <= range.end && range.end <= (1UL << 20) && __CPROVER_is_fresh(array, range.end * sizeof(*array)))
__CPROVER_assigns()
__CPROVER_ensures(range.start <= __CPROVER_return_value && __CPROVER_return_value <= range.end);

void h_C20_binary_first(void)
{
	const echs_instant_t *array;
	echs_instant_t value;
	Range range;
	size_t r = BinaryFirst(array, value, range);
	(void)r;
	SENTINEL("binary first");
}
void h_C20_binary_last(void)
{
	const echs_instant_t *array;
	echs_instant_t value;
	Range range;
	size_t r = BinaryLast(array, value, range);
	(void)r;
	SENTINEL("binary last");
}
