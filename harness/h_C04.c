/* h_C04.c -- the daemon's scheduling step: unwind_till / resched of echsd.c
 * against an abstract sorted task stream (h_stream.h, one child).  libev is
 * represented by its documented contract for periodic watchers with a
 * reschedule callback (trusted): reschedule_cb(w, now) is called at start and
 * after each expiry, its result must be >= now, then cb runs once. */
#include "h_common.h"
#define HNS	1
#include "h_stream.h"
#include <spawn.h>
#include <string.h>
#define H_NOLOG
#include "h_echsd.h"

#if !defined REPLAY
int snprintf(char *s, size_t n, const char *fmt, ...) { (void)fmt; if (n) { s[0] = '\0'; } return 1; }
void ev_periodic_stop(struct ev_loop *l, ev_periodic *w) { (void)l; (void)w; }
/* only feeds a log line here */
size_t dt_strf(char *restrict buf, size_t bsz, echs_instant_t inst) { (void)inst; if (bsz) { buf[0] = '\0'; } return 0U; }
#endif

static struct echs_task_s g_tsk;
static struct _task_s g_t;

/* instant_to_tstamp by contract in this obligation: its exactness (== unix
 * time of the instant, every instant 1901..2099) is C08.tstamp; here it
 * maps the k-th pending occurrence to the harness-chosen time stamp g_ts[k]
 * (non-decreasing with k, otherwise arbitrary relative to now).  This keeps
 * the int64 -> double conversion, which no back end digests, out of the
 * scheduling logic. */
static ev_tstamp g_ts[HQ];
static ev_tstamp instant_to_tstamp(echs_instant_t i)
__CPROVER_assigns()
__CPROVER_ensures((i.u != h_q[0][0].from.u || __CPROVER_return_value == g_ts[0]) &&
		  (i.u != h_q[0][1].from.u || __CPROVER_return_value == g_ts[1]) &&
		  (i.u != h_q[0][2].from.u || __CPROVER_return_value == g_ts[2]));

void h_C04_resched(void)
{
	IN_QUEUE(0);
	IN_RANGE(int, now2, -200000, 200000);	/* now in half seconds */
	IN_RANGE(int, ts0, -100000, 100000);
	IN_RANGE(int, ts1, -100000, 100000);
	IN_RANGE(int, ts2, -100000, 100000);
	IN_RANGE(size_t, nrun, 0, 5);
	/* a strictly increasing stream of distinct instants, time stamps in step */
	ASSUME(EV_NULL(h_q[0][1]) || (EV_LT(h_q[0][0], h_q[0][1]) && ts0 <= ts1));
	ASSUME(EV_NULL(h_q[0][2]) || (EV_LT(h_q[0][1], h_q[0][2]) && ts1 <= ts2));
	g_ts[0] = (ev_tstamp)ts0, g_ts[1] = (ev_tstamp)ts1, g_ts[2] = (ev_tstamp)ts2;
	ev_tstamp now = (ev_tstamp)now2 / 2.0;
	memset(&g_tsk, 0, sizeof(g_tsk));
	memset(&g_t, 0, sizeof(g_t));
	g_tsk.strm = (echs_evstrm_t)&h_child[0];
	g_t.t = &g_tsk;
	g_t.nrun = nrun;
	g_t.w.reschedule_cb = resched;
	g_t.w.cb = task_cb;

	/* the spec's answer: first occurrence that is not in the past */
	unsigned want = HQ;
	for (unsigned k = 0; k < HQ && want == HQ; k++) {
		if (EV_NULL(h_q[0][k])) {
			break;
		}
		if (g_ts[k] >= now) {
			want = k;
		}
	}
	ev_tstamp r = resched(&g_t.w, now);

	if (want < HQ) {
		ASSERT(r == g_ts[want], "resched: the timer is armed for the time stamp of the first occurrence at or after now");
		ASSERT(r >= now, "resched: never armed for the past");
		ASSERT(h_pos[0] == want && h_pops[0] == want, "resched: exactly the occurrences already past are discarded, the armed one stays at the head of the stream");
		ASSERT(g_t.cur.u == h_q[0][want].from.u && g_t.nrun == nrun + 1U, "resched: the armed occurrence is recorded as the current one");
		ASSERT(g_t.w.reschedule_cb == resched && g_t.w.cb == task_cb, "resched: the task stays scheduled");
		if (want > 1U) { SENTINEL("resched several past occurrences collapse"); }
		if (g_ts[want] == now) { SENTINEL("resched occurrence exactly now"); }
		SENTINEL("resched future occurrence");
	} else if (nrun == 0U) {
		ASSERT(g_t.w.cb == unsched && g_t.w.reschedule_cb == NULL, "resched: a task with no occurrence at or after its load time is unscheduled without ever running");
		SENTINEL("resched never run");
	} else {
		ASSERT(g_t.w.reschedule_cb == NULL && r > now + 1.e+29, "resched: after the last occurrence the task is not armed again");
		SENTINEL("resched completed");
	}
	SENTINEL("resched");
}
