/* h_C09e.c -- make_enum of evrrul.c: the time-of-day enumeration arrays that
 * every filler indexes.  The iterators are replaced by the rank contracts
 * that C19 discharges; the three loops carry in-place loop contracts
 * (ECHSE_VERIF hooks).  The precondition is what the parser lets through
 * (C09.snarf_rrule.*). */
#include "h_common.h"
#include "spec_view.h"
#define CONTRACT_DECLS_bitint
#include "contracts_bitint.h"
#include <string.h>
size_t verif_j, verif_k;
#include "evrrul.c"

void h_C09_make_enum(void)
{
	static struct rrulsp_s rr;
	struct enum_s e;
	IN(uint32_t, hr); IN(uint64_t, mi); IN(uint64_t, se);
	IN_RANGE(unsigned, pH, 0, 23); IN_RANGE(unsigned, pM, 0, 59); IN_RANGE(unsigned, pS, 0, 60);
	IN_RANGE(unsigned, i, 0, 60);	/* witness slot */
	verif_k = i, verif_j = i + 1U;
	echs_instant_t proto = {.y = 2000, .m = 1, .d = 1, .H = pH, .M = pM, .S = pS};
	memset(&rr, 0, sizeof(rr));
	ASSUME(WF_BUI31(hr) && WF_BUI63(mi) && WF_BUI63(se));
	/* BYHOUR 0..23, BYMINUTE 0..59, BYSECOND 0..60 (RFC 5545 and the parser) */
	ASSUME(VU31(hr) < (1U << 24) && VU63(mi) < (1ULL << 60) && VU63(se) < (1ULL << 61));
	rr.H = hr, rr.M = mi, rr.S = se;
	memset(&e, 0, sizeof(e));
	make_enum(&e, proto, &rr);
	ASSERT(1U <= e.nH && e.nH <= 24U, "between 1 and 24 hours enumerated");
	ASSERT(1U <= e.nM && e.nM <= 60U, "between 1 and 60 minutes enumerated");
	ASSERT(1U <= e.nS && e.nS <= 61U, "between 1 and 61 seconds enumerated");
	if (i < e.nH) {
		ASSERT(e.H[i] <= 23U, "every enumerated hour is an hour of the day");
		ASSERT(VU31(hr) ? (VU31(hr) >> e.H[i]) & 1U : e.H[i] == pH, "every enumerated hour is in BYHOUR (DTSTART's hour when BYHOUR is absent)");
		ASSERT(i + 1U >= e.nH || e.H[i] < e.H[i + 1U], "hours are enumerated in strictly increasing order");
	}
	if (i < e.nM) {
		ASSERT(e.M[i] <= 59U, "every enumerated minute is a minute of the hour");
		ASSERT(VU63(mi) ? (VU63(mi) >> e.M[i]) & 1U : e.M[i] == pM, "every enumerated minute is in BYMINUTE (DTSTART's when absent)");
		ASSERT(i + 1U >= e.nM || e.M[i] < e.M[i + 1U], "minutes are enumerated in strictly increasing order");
	}
	if (i < e.nS) {
		ASSERT(e.S[i] <= 60U, "every enumerated second is a second of the minute (60 = leap second)");
		ASSERT(VU63(se) ? (VU63(se) >> e.S[i]) & 1U : e.S[i] == pS, "every enumerated second is in BYSECOND (DTSTART's when absent)");
		ASSERT(i + 1U >= e.nS || e.S[i] < e.S[i + 1U], "seconds are enumerated in strictly increasing order");
	}
	if (e.nH == 24U) { SENTINEL("make_enum all hours"); }
	if (e.nS == 61U) { SENTINEL("make_enum all seconds"); }
	SENTINEL("make_enum");
}
