/* h_C18.c -- obligations on dt-strpf.c (the real translation unit is included) */
#include "h_common.h"
#include "instant.h"
#include "spec_instant.h"
#include "dt-strpf.c"

/* every valid instant printed in ISO form parses back to itself */
void h_C18_dt_iso(void)
{
	IN_INSTANT_FIELDS(i);
	ASSUME(I_VALID(i));
	char buf[32];
	char *on = NULL;
	size_t n = dt_strf(buf, sizeof(buf), i);
	ASSERT(n < sizeof(buf) && buf[n] == '\0', "dt_strf: NUL-terminated within the buffer");
	ASSERT(n == (I_ALLDAY(i) ? 10U : I_ALLSEC(i) ? 19U : 23U), "dt_strf: length of the ISO form");
	echs_instant_t r = dt_strp(buf, &on, n);
	ASSERT(r.u == i.u, "dt_strp(dt_strf(i)) == i (ISO form with separators)");
	ASSERT(on == buf + n, "dt_strp consumes exactly the printed text");
	/* len == 0 means NUL-terminated input */
	echs_instant_t r0 = dt_strp(buf, NULL, 0U);
	ASSERT(r0.u == i.u, "dt_strp(dt_strf(i)) == i with implicit length");
	if (I_ALLDAY(i)) { SENTINEL("dt_iso allday"); }
	if (I_ALLSEC(i) && !I_ALLDAY(i)) { SENTINEL("dt_iso allsec"); }
	if (I_TIMED(i) && i.H == 23U) { SENTINEL("dt_iso timed 23h"); }
	SENTINEL("dt_iso");
}

/* iCalendar form: no separators, Z, whole seconds */
void h_C18_dt_ical(void)
{
	IN_INSTANT_FIELDS(i);
	IN_BOOL(with_z);
	ASSUME(I_VALID(i));
	char buf[32];
	char *on = NULL;
	size_t n = dt_strf_ical(buf, sizeof(buf), i);
	ASSERT(n < sizeof(buf) && buf[n] == '\0', "dt_strf_ical: NUL-terminated within the buffer");
	ASSERT(n == (I_ALLDAY(i) ? 8U : 16U), "dt_strf_ical: length of the iCalendar form");
	if (!with_z && !I_ALLDAY(i)) {
		/* the same text without the trailing Z */
		buf[--n] = '\0';
	}
	echs_instant_t r = dt_strp(buf, &on, n);
	echs_instant_t want = i;
	if (!I_ALLDAY(i)) {
		want.ms = ECHS_ALL_SEC;
	}
	ASSERT(r.u == want.u, "dt_strp(dt_strf_ical(i)) == i at whole-second resolution (no separators, with or without Z)");
	ASSERT(on == buf + n, "dt_strp consumes exactly the printed text incl. Z");
	if (!with_z && !I_ALLDAY(i)) { SENTINEL("dt_ical without Z"); }
	if (I_ALLDAY(i)) { SENTINEL("dt_ical allday"); }
	SENTINEL("dt_ical");
}

/* ---------------------------------------------------------------- durations
 * parsing: every spelling [+|-]P[nW][nD][T[nH][nM][nS]] with up to NDIG
 * digits per component reads as the value ISO 8601 gives it.  The harness
 * prints the digits itself (forward, R1). */
#if !defined NDIG
# define NDIG	4
#endif
/* a component: NDIG symbolic decimal digits (leading zeros are legal,
 * 1*DIGIT) followed by the unit; value by Horner's rule */
#if NDIG == 4
#define IN_NUM(p)	IN_RANGE(unsigned, p##1, 0, 9); IN_RANGE(unsigned, p##2, 0, 9); IN_RANGE(unsigned, p##3, 0, 9); IN_RANGE(unsigned, p##4, 0, 9); \
	unsigned p##v = ((p##1 * 10U + p##2) * 10U + p##3) * 10U + p##4
#define PUT_NUM(p, unit)	(buf[n++] = (char)('0' + p##1), buf[n++] = (char)('0' + p##2), buf[n++] = (char)('0' + p##3), buf[n++] = (char)('0' + p##4), buf[n++] = (unit))
#elif NDIG == 2
#define IN_NUM(p)	IN_RANGE(unsigned, p##1, 0, 9); IN_RANGE(unsigned, p##2, 0, 9); \
	unsigned p##v = p##1 * 10U + p##2
#define PUT_NUM(p, unit)	(buf[n++] = (char)('0' + p##1), buf[n++] = (char)('0' + p##2), buf[n++] = (unit))
#endif

/* the layout (which components are present, which sign) is fixed per
 * obligation by -DL_SIGN=0|1|2 -DL_W -DL_D -DL_H -DL_M -DL_S; the digits are
 * symbolic */
#if !defined L_SIGN
# define L_SIGN	0
#endif
#if !defined L_W
# define L_W	0
#endif
#if !defined L_D
# define L_D	1
#endif
#if !defined L_H
# define L_H	1
#endif
#if !defined L_M
# define L_M	1
#endif
#if !defined L_S
# define L_S	1
#endif
void h_C18_idiff_strp(void)
{
	IN_NUM(w); IN_NUM(d); IN_NUM(h); IN_NUM(m); IN_NUM(s);
	char buf[40];
	size_t n = 0U;
	if (L_SIGN == 1) { buf[n++] = '+'; }
	if (L_SIGN == 2) { buf[n++] = '-'; }
	buf[n++] = 'P';
	if (L_W) { PUT_NUM(w, 'W'); }
	if (L_D) { PUT_NUM(d, 'D'); }
	if (L_H || L_M || L_S) {
		buf[n++] = 'T';
		if (L_H) { PUT_NUM(h, 'H'); }
		if (L_M) { PUT_NUM(m, 'M'); }
		if (L_S) { PUT_NUM(s, 'S'); }
	}
	buf[n] = '\0';
	char *on = NULL;
	echs_idiff_t r = idiff_strp(buf, &on, n);
	int64_t want = (int64_t)((L_W ? wv * 7U : 0U) + (L_D ? dv : 0U)) * 86400000LL +
		(int64_t)(L_H ? hv : 0U) * 3600000LL + (int64_t)(L_M ? mv : 0U) * 60000LL + (int64_t)(L_S ? sv : 0U) * 1000LL;
	if (L_SIGN == 2) {
		want = -want;
	}
	ASSERT(r.d == want, "idiff_strp: [+|-]P[nW][nD][T[nH][nM][nS]] reads as the ISO 8601 value in ms");
	ASSERT(on >= buf + n, "idiff_strp consumes the whole duration");
#if L_D
	if (dv > 50U) { SENTINEL("idiff_strp more than 50 days"); }
#endif
#if L_H && NDIG == 4
	if (hv > 1200U) { SENTINEL("idiff_strp more than 1200 hours"); }
#endif
	SENTINEL("idiff_strp");
}

/* print/parse round trip of durations on a stratum (R1c: the printer divides
 * the 64-bit value; only strata are decidable) */
#if !defined RT_UNIT
# define RT_LO	0
# define RT_HI	200000
# define RT_UNIT	1000LL
#endif
void h_C18_idiff_roundtrip(void)
{
	IN_RANGE(int64_t, k, RT_LO, RT_HI);
	echs_idiff_t d = {k * RT_UNIT};
	char buf[32];
	char *on = NULL;
	size_t n = idiff_strf(buf, sizeof(buf), d);
	ASSERT(n < sizeof(buf) && buf[n] == '\0', "idiff_strf: NUL-terminated within the buffer");
	echs_idiff_t r = idiff_strp(buf, &on, n);
	ASSERT(r.d == d.d, "idiff_strp(idiff_strf(d)) == d");
	if (k == 1) { SENTINEL("idiff roundtrip one unit"); }
	SENTINEL("idiff roundtrip");
}
