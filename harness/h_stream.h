/* h_stream.h -- abstract child stream (DESIGN 3.4).
 * The inline vtable wrappers of evstrm.h (echs_evstrm_next/pop,
 * free_echs_evstrm, clone_echs_evstrm) are replaced TEXTUALLY, by macros
 * defined after evstrm.h has been read and before the translation unit under
 * verification is included, with the model below.  This removes the indirect
 * calls (whose targets would include the function under verification).
 * Model = the contract every echse stream class promises:
 *   next: returns the head, changes nothing;
 *   pop : returns the head, the new head is null or not earlier than the old
 *         one; an exhausted stream stays exhausted; pops are counted.
 * The heads to come are harness inputs (a queue of HQ events per child). */
#if !defined INCLUDED_h_stream_h_
#define INCLUDED_h_stream_h_
#include "evstrm.h"
#include "spec_instant.h"

#if !defined HNS
# define HNS	3	/* number of child streams */
#endif
#define HQ	3	/* events per child known to the harness */

struct hstrm_s {
	echs_evstrm_class_t class;
	size_t idx;
};
static struct hstrm_s h_child[HNS];
static echs_event_t h_q[HNS][HQ + 1];	/* h_q[k][HQ] is the null event */
static unsigned h_pos[HNS];		/* next undelivered */
static unsigned h_pops[HNS];
static unsigned h_freed[HNS];

#define H_IDX(s)	(((struct hstrm_s*)(s))->idx)
#define H_HEAD(k)	(h_q[k][h_pos[k]])

static echs_event_t h_next(echs_evstrm_t s)
{
	return H_HEAD(H_IDX(s));
}

static echs_event_t h_pop(echs_evstrm_t s)
{
	size_t k = H_IDX(s);
	echs_event_t e = H_HEAD(k);

	h_pops[k]++;
	if (h_pos[k] < HQ) {
		h_pos[k]++;
	}
	return e;
}

static void h_free(echs_evstrm_t s)
{
	h_freed[H_IDX(s)]++;
}

static echs_evstrm_t h_clone(echs_evstrm_t s)
{
	return s;
}

#define echs_evstrm_next(s)	h_next(s)
#define echs_evstrm_pop(s)	h_pop(s)
#define free_echs_evstrm(s)	h_free(s)
#define clone_echs_evstrm(s)	h_clone(s)

/* chronological order of events by the spec's key (not by the code's comparator) */
#define EV_NULL(e)	((e).from.u == 0ULL)
#define EV_LT(a, b)	(IKEY((a).from) < IKEY((b).from))
#define EV_EQ(a, b)	((a).from.u == (b).from.u && (a).oid == (b).oid)

/* declares the queue of child K as inputs: sorted, nulls only at the end */
#define IN_QUEUE(k)							\
	IN(uint64_t, q##k##_0); IN(uint64_t, q##k##_1); IN(uint64_t, q##k##_2);	\
	IN_RANGE(unsigned, o##k##_0, 1, 2); IN_RANGE(unsigned, o##k##_1, 1, 2); IN_RANGE(unsigned, o##k##_2, 1, 2); \
	h_q[k][0] = (echs_event_t){.from = {.u = q##k##_0}, .oid = o##k##_0};	\
	h_q[k][1] = (echs_event_t){.from = {.u = q##k##_1}, .oid = o##k##_1};	\
	h_q[k][2] = (echs_event_t){.from = {.u = q##k##_2}, .oid = o##k##_2};	\
	h_q[k][3] = (echs_event_t){.from = {.u = 0ULL}};			\
	ASSUME(q##k##_0 != ~0ULL && q##k##_1 != ~0ULL && q##k##_2 != ~0ULL);	\
	ASSUME(!(q##k##_0 == 0ULL) || q##k##_1 == 0ULL);			\
	ASSUME(!(q##k##_1 == 0ULL) || q##k##_2 == 0ULL);			\
	ASSUME(q##k##_1 == 0ULL || !EV_LT(h_q[k][1], h_q[k][0]));		\
	ASSUME(q##k##_2 == 0ULL || !EV_LT(h_q[k][2], h_q[k][1]));		\
	h_child[k].idx = k; h_pos[k] = 0U; h_pops[k] = 0U; h_freed[k] = 0U

#endif
