/* h_C09p.c -- snarf_rrule of evical.c: whatever number text stands behind a
 * BYxxx / INTERVAL key, the rule handed to the fillers satisfies the
 * well-formedness and the value ranges the filler obligations (C09.*ly,
 * C09.make_enum) take as their precondition.
 * The rule text is a concrete layout "FREQ=DAILY;<KEY>=<n>,<n>,<n>"; the
 * VALUE of each <n> is symbolic: strtol/strtoul/atol are replaced by stubs
 * that return an arbitrary long and step over the placeholder digits (trusted:
 * libc's number reading).  Key lookup is the real gperf table. */
#include "h_common.h"
#include <stdlib.h>
#include <string.h>
#include <unistd.h>
#include "spec_view.h"

static long g_num[3];
static unsigned g_nnum;
static const char *h_skip(const char *s)
{
	while (*s == '-' || (*s >= '0' && *s <= '9')) {
		s++;
	}
	return s;
}
static long h_next_num(void)
{
	long v = g_nnum < 3U ? g_num[g_nnum] : 0L;
	g_nnum++;
	return v;
}
static long h_strtol(const char *s, char **on, int base)
{
	(void)base;
	if (on != NULL) {
		*on = (char*)h_skip(s);
	}
	return h_next_num();
}
static unsigned long h_strtoul(const char *s, char **on, int base)
{
	(void)base;
	if (on != NULL) {
		*on = (char*)h_skip(s);
	}
	return (unsigned long)h_next_num();
}
static long h_atol(const char *s)
{
	(void)s;
	return h_next_num();
}
#if !defined REPLAY
# define strtol	h_strtol
# define strtoul	h_strtoul
# define atol	h_atol
#endif	/* !REPLAY */

#define INCLUDED_fdprnt_h_
static int fdbang(int fd) { (void)fd; return 0; }
static ssize_t fdflush(void) { return 0; }
static int fdputc(int c) { (void)c; return 0; }
static ssize_t fdwrite(const char *str, size_t len) { (void)str; return (ssize_t)len; }
#define fdprintf(...)	(0)
#include "bitint.h"
#if !defined REPLAY
/* the big containers' assignment functions (contracts: C19.ass_bi383 /
 * C19.ass_bi447) are replaced by a recorder of (container, value) */
static const void *g_ass_to[4];
static int g_ass_val[4];
static unsigned g_nass;
static void h_ass_big(const void *bi, int x)
{
	if (g_nass < 4U) {
		g_ass_to[g_nass] = bi;
		g_ass_val[g_nass] = x;
	}
	g_nass++;
}
# define ass_bi383(bi, x)	h_ass_big(bi, x)
# define ass_bi447(bi, x)	h_ass_big(bi, x)
#endif	/* !REPLAY */
#include "evical.c"

#if !defined RRKEY
# define RRKEY	"BYHOUR"
# define RRK	1
#endif
/* what one value contributes to an unsigned container with values lo..hi */
#define U_BIT(v, lo, hi)	((unsigned long)(v) >= (lo) && (unsigned long)(v) <= (hi) ? 1ULL << (v) : 0ULL)

void h_C09_snarf_rrule(void)
{
	IN(long, v0); IN(long, v1); IN(long, v2);
#if defined REPLAY
	/* native replay: the real libc reads the numbers back from their text */
	char txt[128];
# if RRK == 10
	snprintf(txt, sizeof(txt), "FREQ=DAILY;" RRKEY "=%ldMO,%ldTU,%ldSU", v0, v1, v2);
# else
	snprintf(txt, sizeof(txt), "FREQ=DAILY;" RRKEY "=%ld,%ld,%ld", v0, v1, v2);
# endif
	struct rrulsp_s rr = snarf_rrule(txt, strlen(txt));
	g_nnum = 3U;
#else
# if RRK == 10
	static const char txt[] = "FREQ=DAILY;" RRKEY "=1MO,-22TU,333SU";
# else
	static const char txt[] = "FREQ=DAILY;" RRKEY "=1,-22,333";
# endif
	g_num[0] = v0, g_num[1] = v1, g_num[2] = v2;
	g_nnum = 0U;
	struct rrulsp_s rr = snarf_rrule(txt, sizeof(txt) - 1U);
#endif

	/* whatever the key: every container is in a state its iterator understands */
	ASSERT(WF_BUI31(rr.mon) && WF_BUI31(rr.H) && WF_BUI63(rr.M) && WF_BUI63(rr.S), "unsigned containers are well-formed");
	ASSERT(WF_BI31(rr.dom) && WF_BI63(rr.wk), "signed containers are well-formed");
#if RRK == 0	/* BYMONTH */
	ASSERT(g_nnum == 3U, "three numbers read");
	ASSERT(VU31(rr.mon) == (U_BIT(v0, 1, 12) | U_BIT(v1, 1, 12) | U_BIT(v2, 1, 12)), "BYMONTH holds exactly the listed values within 1..12");
#elif RRK == 1	/* BYHOUR */
	ASSERT(g_nnum == 3U, "three numbers read");
	ASSERT(VU31(rr.H) == (U_BIT(v0, 0, 23) | U_BIT(v1, 0, 23) | U_BIT(v2, 0, 23)), "BYHOUR holds exactly the listed values within 0..23");
#elif RRK == 2	/* BYMINUTE */
	ASSERT(g_nnum == 3U, "three numbers read");
	ASSERT(VU63(rr.M) == (U_BIT(v0, 0, 59) | U_BIT(v1, 0, 59) | U_BIT(v2, 0, 59)), "BYMINUTE holds exactly the listed values within 0..59");
#elif RRK == 3	/* BYSECOND */
	ASSERT(g_nnum == 3U, "three numbers read");
	ASSERT(VU63(rr.S) == (U_BIT(v0, 0, 60) | U_BIT(v1, 0, 60) | U_BIT(v2, 0, 60)), "BYSECOND holds exactly the listed values within 0..60");
#elif RRK == 5	/* BYMONTHDAY */
# define P_BIT(v, hi)	((v) >= 1 && (v) <= (hi) ? 1ULL << (v) : 0ULL)
# define N_BIT(v, hi)	((v) <= -1 && (v) >= -(hi) ? 1ULL << -(v) : 0ULL)
	ASSERT(g_nnum == 3U, "three numbers read");
	ASSERT(VP31(rr.dom) == (P_BIT(v0, 31) | P_BIT(v1, 31) | P_BIT(v2, 31)), "BYMONTHDAY holds exactly the listed positive values within 1..31");
	ASSERT(VN31(rr.dom) == (N_BIT(v0, 31) | N_BIT(v1, 31) | N_BIT(v2, 31)), "BYMONTHDAY holds exactly the listed negative values within -31..-1, never 0");
#elif RRK == 6	/* BYWEEKNO */
# define P_BIT(v, hi)	((v) >= 1 && (v) <= (hi) ? 1ULL << (v) : 0ULL)
# define N_BIT(v, hi)	((v) <= -1 && (v) >= -(hi) ? 1ULL << -(v) : 0ULL)
	ASSERT(g_nnum == 3U, "three numbers read");
	ASSERT(VP63(rr.wk) == (P_BIT(v0, 53) | P_BIT(v1, 53) | P_BIT(v2, 53)), "BYWEEKNO holds exactly the listed positive values within 1..53");
	ASSERT(VN63(rr.wk) == (N_BIT(v0, 53) | N_BIT(v1, 53) | N_BIT(v2, 53)), "BYWEEKNO holds exactly the listed negative values within -53..-1, never 0");
#elif RRK == 7 || RRK == 8 || RRK == 9	/* BYYEARDAY, BYSETPOS: +-1..366; BYEASTER: -366..366 */
# if RRK == 7
#  define C383	(&rr.doy)
#  define OK383(v)	((v) != 0 && -366 <= (v) && (v) <= 366)
# elif RRK == 8
#  define C383	(&rr.pos)
#  define OK383(v)	((v) != 0 && -366 <= (v) && (v) <= 366)
# else
#  define C383	(&rr.easter)
#  define OK383(v)	(-366 <= (v) && (v) <= 366)
# endif
# if defined REPLAY
	IN_RANGE(int, x, -383, 383);	/* witness value */
	ASSERT(WF_383(C383), "the container is well-formed");
	ASSERT(HAS_383(C383, x) == ((x == v0 && OK383(v0)) || (x == v1 && OK383(v1)) || (x == v2 && OK383(v2))), "the container holds exactly the listed values within range");
# else
	ASSERT(g_nnum == 3U, "three numbers read");
	/* exactly the values within range are assigned, in order, to this key's container */
	ASSERT(g_nass == (unsigned)OK383(v0) + (unsigned)OK383(v1) + (unsigned)OK383(v2), "one assignment per listed value within range, none for the others");
	{
		unsigned k = 0U;
		if (OK383(v0)) { ASSERT(g_ass_val[k] == v0, "first value within range is assigned as written"); k++; }
		if (OK383(v1)) { ASSERT(g_ass_val[k] == v1, "second value within range is assigned as written"); k++; }
		if (OK383(v2)) { ASSERT(g_ass_val[k] == v2, "third value within range is assigned as written"); k++; }
	}
	/* (the rule is built in snarf_rrule's frame and returned by value, so the container is identified by the call order only) */
# endif
#elif RRK == 10	/* BYDAY n<weekday> */
# define OKDAY(v)	(-53 <= (v) && (v) <= 53)
# if defined REPLAY
	IN_RANGE(int, x, -447, 447);	/* witness value */
	ASSERT(WF_447(&rr.dow), "the container is well-formed");
	ASSERT(HAS_447(&rr.dow, x) == ((OKDAY(v0) && x == pack_cd(CD((int)v0, MON))) || (OKDAY(v1) && x == pack_cd(CD((int)v1, TUE))) || (OKDAY(v2) && x == pack_cd(CD((int)v2, SUN)))),
		"BYDAY holds exactly the listed (ordinal, weekday) pairs with ordinals within -53..53");
# else
	ASSERT(g_nnum == 3U, "three numbers read");
	ASSERT(g_nass == (unsigned)OKDAY(v0) + (unsigned)OKDAY(v1) + (unsigned)OKDAY(v2), "one assignment per listed pair with an ordinal within -53..53");
	{
		unsigned k = 0U;
		if (OKDAY(v0)) { ASSERT(g_ass_val[k] == pack_cd(CD((int)v0, MON)), "first pair is assigned as (ordinal, MO)"); k++; }
		if (OKDAY(v1)) { ASSERT(g_ass_val[k] == pack_cd(CD((int)v1, TUE)), "second pair is assigned as (ordinal, TU)"); k++; }
		if (OKDAY(v2)) { ASSERT(g_ass_val[k] == pack_cd(CD((int)v2, SUN)), "third pair is assigned as (ordinal, SU)"); k++; }
	}
# endif
#elif RRK == 4	/* INTERVAL */
	ASSERT(rr.freq == FREQ_NONE || (1U <= rr.inter && rr.inter <= 0x7fffffffU), "INTERVAL is a positive int in every accepted rule (never 0, never wrapped)");
	ASSERT(rr.freq == FREQ_NONE || (long)rr.inter == v0, "INTERVAL is the number written");
	ASSERT((rr.freq == FREQ_NONE) == (v0 <= 0 || v0 > 0x7fffffffL), "exactly the rules with an INTERVAL outside 1..INT_MAX are refused");
#endif
	if (v0 == 0 && v1 == 24 && v2 == 60) { SENTINEL("snarf_rrule edge values"); }
	SENTINEL("snarf_rrule");
}

/* ---- C17: snarf_shift, the text form of SHIFT -> the encoding shift() decodes ----
 * layouts: "<n>" (days), "<n>B" (business days) with the number's VALUE
 * symbolic; the number's text begins with '-' exactly when the harness says so
 * (for the value 0 both spellings exist: 0B and -0B). */
#if !defined REPLAY
void h_C17_snarf_shift(void)
{
	IN_RANGE(long, n, -366, 366);
	IN_BOOL(minus);		/* the text starts with '-' */
	IN_BOOL(bday);
	ASSUME((n < 0) ? minus : (n > 0 ? !minus : 1));
	g_num[0] = n, g_nnum = 0U;
	echs_shift_t sh;
	/* one call per concrete layout */
	if (bday && minus) {
		sh = snarf_shift("-1B");
	} else if (bday) {
		sh = snarf_shift("1B");
	} else if (minus) {
		sh = snarf_shift("-1");
	} else {
		sh = snarf_shift("1");
	}
	ASSERT(g_nnum == 1U, "one number read");
	if (!bday) {
		ASSERT(echs_shift_dvalue(sh) == (int)n && !echs_shift_bday_p(sh), "SHIFT=N: N calendar days, no business-day part");
		SENTINEL("snarf_shift days");
	} else {
		ASSERT(echs_shift_dvalue(sh) == 0, "SHIFT=NB: no calendar-day part");
		ASSERT(echs_shift_bday_p(sh), "SHIFT=NB (0B and -0B included) is a business-day shift");
		ASSERT(echs_shift_bvalue(sh) == (int)n, "SHIFT=NB: N business days, signed");
		ASSERT(echs_shift_neg_p(sh) == (bool)minus, "SHIFT=NB: the direction is the sign as written, also for -0B");
		if (n == 0 && minus) { SENTINEL("snarf_shift -0B"); }
		SENTINEL("snarf_shift business days");
	}
	SENTINEL("snarf_shift");
}
#endif
