/* h_C08_tstamp.c -- the daemon's wake-up timestamp (echsd.c, static) */
#include "h_common.h"
#include "contracts_instant.h"
#include "h_echsd.h"

#if !defined TS_YLO
# define TS_YLO	2001U
#endif
#if !defined TS_YHI
# define TS_YHI	2099U
#endif
void h_C08_tstamp(void)
{
	IN_INSTANT_FIELDS(i);
	ASSUME(I_VALID(i));
	ASSUME(i.y >= TS_YLO && i.y <= TS_YHI);
	ev_tstamp ts = instant_to_tstamp(i);
	/* exact: |seconds| < 2^53 */
	/* Horner form of days:H:M:S (mixed radix 24, 60, 60) */
	int64_t ud = (int64_t)S_UNIXDAY(i.y, i.m, i.d);
	int64_t want = I_ALLDAY(i) ? ud * 86400 : ((ud * 24 + (int64_t)i.H) * 60 + (int64_t)i.M) * 60 + (int64_t)i.S;
	ASSERT(ts == (ev_tstamp)want,
	       "daemon wake-up timestamp == unix time of the instant (start of day for all-day), exactly");
	if (I_ALLDAY(i)) {
		SENTINEL("tstamp allday");
	}
	if (i.m <= 2U && i.y % 4U == 0U) {
		SENTINEL("tstamp leap Jan/Feb");
	}
	SENTINEL("tstamp");
}
