/* h_echsd.h -- includes the real echsd.c with main() renamed.
 * Dropped (stated): nothing of the function bodies; echsd's main becomes
 * echsd_main and is never called by the harnesses. */
#if !defined INCLUDED_h_echsd_h_
#define INCLUDED_h_echsd_h_
#define main	echsd_main
#include "echsd.c"
#undef main
#endif
