/* h_echsd.h -- includes the real echsd.c with main() renamed.
 * Dropped (stated): echsd's main becomes echsd_main and is never called by
 * the harnesses.  With H_NOLOG the logging macros of logger.h are pre-empted
 * by no-ops (logging is variadic and irrelevant to every contract here; DFCC
 * aborts on generated bodies for variadic functions). */
#if !defined INCLUDED_h_echsd_h_
#define INCLUDED_h_echsd_h_
#if defined H_NOLOG && !defined REPLAY
# define INCLUDED_logger_h_
# include <syslog.h>
# define ECHS_INFO_LOG(args...)	do {} while (0)
# define ECHS_ERR_LOG(args...)	do {} while (0)
# define ECHS_CRIT_LOG(args...)	do {} while (0)
# define ECHS_NOTI_LOG(args...)	do {} while (0)
# define ECHS_DEBUG(args...)
# define ECHS_DBGCONT(args...)
static inline void echs_openlog(void) {}
static inline void echs_closelog(void) {}
extern void(*echs_log)(int prio, const char *fmt, ...);
extern void echs_errlog(int prio, const char *fmt, ...);
#endif
#define main	echsd_main
#include "echsd.c"
#undef main
#endif
