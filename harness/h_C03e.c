/* h_C03e.c -- echse.c's registry of streams that `echse unroll/merge` hands to
 * the muxer: removing one stream (a re-published UID) must not lose another */
#include "h_common.h"
#include <stdlib.h>
#define main	echse_main
#include "echse.c"
#undef main

#define NREG	4U
static struct { echs_evstrm_class_t class; } g_s[NREG + 1U];

void h_C03_registry(void)
{
	const size_t n = NREG;	/* streams registered (concrete: keeps the growth path constant-false) */
	IN_RANGE(size_t, r, 0, NREG - 1);	/* the one removed */
	IN_RANGE(size_t, w, 0, NREG - 1);	/* witness stream */
	ASSUME(r < n && w < n && w != r);
	/* room for 8 entries is there already (the growth path is realloc, whose
	 * CBMC model copies a symbolic length - out of reach) */
	strms = malloc(8U * sizeof(*strms));
	ASSUME(strms != NULL);
	nstrms = 0U, zstrms = 8U;
	for (size_t i = 0; i < NREG; i++) {
		if (i < n) {
			ASSERT(add_strm((echs_evstrm_t)&g_s[i]) == 0, "add_strm registers a stream");
		}
	}
	ASSERT(rem_strm((echs_evstrm_t)&g_s[r]) == 0, "rem_strm finds a registered stream");
	ASSERT(add_strm((echs_evstrm_t)&g_s[NREG]) == 0, "a stream added after a removal is registered");
	/* every stream other than the removed one is still handed to the muxer, the new one too */
	bool have_w = false, have_new = false, have_r = false;
	for (size_t i = 0; i < NREG + 1U; i++) {
		if (i < nstrms) {
			have_w = have_w || strms[i] == (echs_evstrm_t)&g_s[w];
			have_new = have_new || strms[i] == (echs_evstrm_t)&g_s[NREG];
			have_r = have_r || strms[i] == (echs_evstrm_t)&g_s[r];
		}
	}
	ASSERT(have_w, "removing one stream keeps every other registered stream");
	ASSERT(have_new, "the stream added afterwards is registered");
	ASSERT(!have_r, "the removed stream is gone");
	if (r + 1U < n) { SENTINEL("registry removed from the middle"); }
	SENTINEL("registry");
}
