/* h_C01d.c -- the dense set builders of the YEARLY/MONTHLY fillers (every day
 * of a month / year on the listed weekdays; BYMONTHDAY in every month).
 * The candidate container is modelled as a plain 384-bit bitmap written by
 * ass_bi383 (the real one: C19.ass_bi383); a symbolic witness value x decides
 * membership both ways: x is in the set iff it is the packed form of a real
 * date of the period that satisfies the rule part. */
#include "h_common.h"
#include "spec_cal.h"
#include "spec_view.h"
#include <string.h>
#include "bitint.h"
#include "scale.h"

static uint32_t g_bits[12];
static unsigned g_oob;
static void h_ass383(bitint383_t *restrict bi, int x)
{
	(void)bi;
	if (x < 0 || x > 383) {
		g_oob++;
		return;
	}
	g_bits[(unsigned)x / 32U] |= 1U << ((unsigned)x % 32U);
}
#define ass_bi383(bi, x)	h_ass383(bi, x)
/* scale.c's dispatchers on the Gregorian scale (discharged by C15.dispatch / C15.greg) */
#define echs_scale_ndim(s, y, m)	((unsigned int)S_MDAYS(y, m))
#define echs_scale_wday(s, y, m, d)	((echs_wday_t)S_WDAY(y, m, d))
#include "evrrul.c"

#define H_HAS(x)	((g_bits[(unsigned)(x) / 32U] >> ((unsigned)(x) % 32U)) & 1U)
#define H_RESET()	(memset(g_bits, 0, sizeof(g_bits)), g_oob = 0U)

/* every day of month mo on an allowed weekday (MONTHLY;BYDAY=XX,...) */
void h_C01_fill_mly_ymd_all_d(void)
{
	static bitint383_t cand[1];
	IN_RANGE(unsigned, y, 1901, 2099);
	IN_RANGE(unsigned, mo, 1, 12);
	IN_RANGE(unsigned, wdm, 0, 255);
	IN_RANGE(unsigned, x, 0, 383);	/* witness */
	H_RESET();
	fill_mly_ymd_all_d(cand, SCALE_GREGORIAN, y, mo, (uint8_t)wdm);
	const unsigned xm = x / 32U + 1U, xd = x % 32U;
	const int in = xm == mo && 1U <= xd && (int)xd <= S_MDAYS(y, mo) && (!wdm || ((wdm >> S_WDAY(y, mo, xd ? xd : 1U)) & 1U));
	ASSERT(g_oob == 0U, "nothing outside the container is assigned");
	ASSERT((H_HAS(x) != 0U) == (in != 0), "exactly the days of the month on an allowed weekday are selected (all days when no weekday is listed)");
	if (in) { SENTINEL("mly all_d member"); }
	SENTINEL("fill_mly_ymd_all_d");
}

/* BYMONTHDAY=N in every month of the year (YEARLY;BYMONTHDAY=N without BYMONTH) */
void h_C01_fill_yly_ymd_all_m(void)
{
	static bitint383_t cand[1];
	static int d[2U * 31U];
	IN_RANGE(unsigned, y, 1901, 2099);
	IN_RANGE(int, n, -31, 31);
	IN_RANGE(unsigned, wdm, 0, 255);
	IN_RANGE(unsigned, x, 0, 383);	/* witness */
	ASSUME(n != 0);
	H_RESET();
	memset(d, 0, sizeof(d));
	d[0] = n;
	fill_yly_ymd_all_m(cand, SCALE_GREGORIAN, y, d, 1U, (uint8_t)wdm);
	const unsigned xm = x / 32U + 1U, xd = x % 32U;
	const int ndim = xm <= 12U ? S_MDAYS(y, xm) : 0;
	const int want = n > 0 ? n : ndim + 1 + n;
	const int in = xm <= 12U && 1 <= want && want <= ndim && (int)xd == want && (!wdm || ((wdm >> S_WDAY(y, xm, xd ? xd : 1U)) & 1U));
	ASSERT(g_oob == 0U, "nothing outside the container is assigned");
	ASSERT((H_HAS(x) != 0U) == (in != 0), "exactly the N-th (N-th last) day of every month that has one, on an allowed weekday, is selected");
	if (in && n < 0) { SENTINEL("yly all_m negative member"); }
	SENTINEL("fill_yly_ymd_all_m");
}

/* every day of the year on a listed weekday (YEARLY;BYDAY=XX,...) */
void h_C01_fill_yly_yd_all(void)
{
	static bitint383_t cand[1];
	IN_RANGE(unsigned, y, 1901, 2099);
	IN_RANGE(unsigned, wdm, 0, 255);
	IN_RANGE(unsigned, x, 0, 383);	/* witness */
	H_RESET();
	fill_yly_yd_all(cand, y, (uint8_t)wdm);
	const unsigned xm = x / 32U + 1U, xd = x % 32U;
	const int valid = xm <= 12U && 1U <= xd && (int)xd <= S_MDAYS(y, xm <= 12U ? xm : 1U);
	const int in = valid && (wdm >> 1U) && ((wdm >> S_WDAY(y, xm, xd)) & 1U);
	ASSERT(g_oob == 0U, "nothing outside the container is assigned");
	ASSERT((H_HAS(x) != 0U) == (in != 0), "exactly the days of the year on a listed weekday are selected");
	if (in && xm == 12U) { SENTINEL("yly yd_all december member"); }
	SENTINEL("fill_yly_yd_all");
}

/* every day of the listed months on a listed weekday (YEARLY;BYMONTH=..;BYDAY=XX,..) */
void h_C01_fill_yly_md_all(void)
{
	static bitint383_t cand[1];
	static unsigned int ms[12];
	IN_RANGE(unsigned, y, 1901, 2099);
	IN_RANGE(unsigned, m1, 1, 12); IN_RANGE(unsigned, m2, 1, 12);
	IN_RANGE(unsigned, nm, 1, 2);
	IN_RANGE(unsigned, wdm, 0, 255);
	IN_RANGE(unsigned, x, 0, 383);	/* witness */
	ASSUME(m1 < m2);
	H_RESET();
	memset(ms, 0, sizeof(ms));
	ms[0] = m1, ms[1] = m2;
	fill_yly_md_all(cand, SCALE_GREGORIAN, y, ms, nm, (uint8_t)wdm);
	const unsigned xm = x / 32U + 1U, xd = x % 32U;
	const int listed = xm == m1 || (nm > 1U && xm == m2);
	const int in = listed && 1U <= xd && (int)xd <= S_MDAYS(y, xm <= 12U ? xm : 1U) && (wdm >> 1U) && ((wdm >> S_WDAY(y, xm, xd ? xd : 1U)) & 1U);
	ASSERT(g_oob == 0U, "nothing outside the container is assigned");
	ASSERT((H_HAS(x) != 0U) == (in != 0), "exactly the days of the listed months on a listed weekday are selected");
	if (in && nm > 1U && xm == m2) { SENTINEL("yly md_all second month member"); }
	SENTINEL("fill_yly_md_all");
}
