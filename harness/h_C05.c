/* h_C05.c -- serialisation of a recurrence rule: send_rrul of evical.c.
 * fdprnt.h is replaced by a ghost recorder for this translation unit: it
 * collects, per BYxxx key, the set of values printed (trusted stub; libc's
 * %u/%d is not modelled).  Obligation: each BYxxx list printed enumerates
 * exactly the view of ITS container (so that reading the text back yields
 * the same set). */
#include "h_common.h"
#include <string.h>
#include <stdarg.h>
#include <unistd.h>
#include "spec_view.h"

#define INCLUDED_fdprnt_h_
enum { K_NONE, K_MONTH, K_HOUR, K_MINUTE, K_SECOND, K_OTHER, K_N };
static uint64_t g_vals[K_N];
static unsigned g_dups, g_cur;
static unsigned g_ms_lines, g_um_lines;
static int g_ms_val;
static unsigned g_um_val;
static int fdbang(int fd) { (void)fd; return 0; }
static ssize_t fdflush(void) { return 0; }
static int fdputc(int c) { (void)c; return 0; }
static ssize_t fdwrite(const char *str, size_t len) { (void)str; return (ssize_t)len; }
static int fdprintf(const char *fmt, ...)
{
	va_list ap;
	va_start(ap, fmt);
	if (fmt[0] == 'X' && fmt[1] == '-' && fmt[7] == 'M' && fmt[8] == 'A' && fmt[9] == 'X') {
		/* X-ECHS-MAX-SIMUL:%d */
		g_ms_lines++;
		g_ms_val = va_arg(ap, int);
		va_end(ap);
		return 1;
	} else if (fmt[0] == 'X' && fmt[1] == '-' && fmt[7] == 'U' && fmt[8] == 'M') {
		/* X-ECHS-UMASK:0%o */
		g_um_lines++;
		g_um_val = va_arg(ap, unsigned);
		va_end(ap);
		return 1;
	}
	if (fmt[0] == ';' && fmt[1] == 'B' && fmt[2] == 'Y') {
		/* a new list starts */
		g_cur = fmt[3] == 'H' ? K_HOUR : (fmt[3] == 'M' && fmt[4] == 'I') ? K_MINUTE :
			(fmt[3] == 'S' && fmt[4] == 'E') ? K_SECOND : (fmt[3] == 'M' && fmt[4] == 'O' && fmt[5] == 'N' && fmt[6] == 'T' && fmt[7] == 'H' && fmt[8] == '=') ? K_MONTH : K_OTHER;
	} else if (!(fmt[0] == ',' && fmt[1] == '%')) {
		g_cur = K_NONE;
	}
	if (g_cur >= K_MONTH && g_cur <= K_SECOND) {
		unsigned v = va_arg(ap, unsigned);
		if (v < 64U) {
			g_dups += (unsigned)((g_vals[g_cur] >> v) & 1U);
			g_vals[g_cur] |= 1ULL << v;
		} else {
			g_dups += 100U;
		}
	}
	va_end(ap);
	return 1;
}
#include "evical.c"

/* at most 3 members: n & (n-1) clears the lowest bit */
#define POP_LE3(v)	(((((v) & ((v) - 1U)) & (((v) & ((v) - 1U)) - 1U)) & ((((v) & ((v) - 1U)) & (((v) & ((v) - 1U)) - 1U)) - 1U)) == 0U)

void h_C05_send_rrul_sets(void)
{
	IN(uint32_t, mon); IN(uint32_t, hr); IN(uint64_t, mi); IN(uint64_t, se);
	static struct rrulsp_s rr;
	memset(&rr, 0, sizeof(rr));
	rr.freq = FREQ_DAILY, rr.count = -1, rr.inter = 1U, rr.until.u = ~0ULL;
	rr.mon = mon, rr.H = hr, rr.M = mi, rr.S = se;
	ASSUME(WF_BUI31(mon) && WF_BUI31(hr) && WF_BUI63(mi) && WF_BUI63(se));
	ASSUME(!(VU31(mon) & 1U) && VU31(mon) < (1U << 13));	/* months 1..12 */
	ASSUME(VU31(hr) < (1U << 24) && VU63(mi) < (1ULL << 60) && VU63(se) < (1ULL << 60));
	/* bound of this obligation: at most 3 values per list */
	ASSUME(POP_LE3(VU31(mon)) && POP_LE3(VU31(hr)) && POP_LE3(VU63(mi)) && POP_LE3(VU63(se)));
	send_rrul(5, &rr, 0U);
	ASSERT(g_dups == 0U, "no BYxxx value is written twice");
	ASSERT(g_vals[K_MONTH] == VU31(mon), "BYMONTH as written lists exactly the months of the rule");
	ASSERT(g_vals[K_HOUR] == VU31(hr), "BYHOUR as written lists exactly the hours of the rule (0 included)");
	ASSERT(g_vals[K_MINUTE] == VU63(mi), "BYMINUTE as written lists exactly the minutes of the rule (31..59 included)");
	ASSERT(g_vals[K_SECOND] == VU63(se), "BYSECOND as written lists exactly the seconds of the rule (31..59 included)");
	if (VU63(mi) >> 31) { SENTINEL("send_rrul minute above 30"); }
	if (hr == 1U) { SENTINEL("send_rrul lone hour 0"); }
	SENTINEL("send_rrul");
}

#if !defined REPLAY
const char *obint_name(obint_t x) { (void)x; return "uid"; }
#endif
/* the numeric task fields with an 'unset' encoding: what is written is the
 * value the task holds, and nothing is written for 'unset' */
void h_C05_send_task_limits(void)
{
	IN_RANGE(unsigned, ms, 0, 63);	/* 63 = unset */
	IN_RANGE(unsigned, um, 0, 1023);	/* >= 0777 + 1 ... = unset */
	static struct echs_task_s t;
	memset(&t, 0, sizeof(t));
	t.max_simul = ms;
	t.umsk = um;
	send_task(5, &t);
	if (ms < 63U) {
		ASSERT(g_ms_lines == 1U && g_ms_val == (int)ms, "send_task: a task limited to N simultaneous runs is written with X-ECHS-MAX-SIMUL:N");
		SENTINEL("send_task limited");
	} else {
		ASSERT(g_ms_lines == 0U, "send_task: an unlimited task is written without X-ECHS-MAX-SIMUL");
		SENTINEL("send_task unlimited");
	}
	if (um <= 0777U) {
		ASSERT(g_um_lines == 1U && g_um_val == um, "send_task: the umask is written as it is held");
	} else {
		ASSERT(g_um_lines == 0U, "send_task: an unset umask is not written");
	}
	SENTINEL("send_task limits");
}
