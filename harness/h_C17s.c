/* h_C17s.c -- shift() of evrrul.c (SHIFT=N, calendar days) on one candidate.
 * The candidate loops treat every member of the set on its own, so the
 * singleton case carries the general one (stated).  The +-383 container's
 * ass_bi383 / bi383_next (bitint.c; contracts: C19) are replaced by their
 * native-mode behaviour for a container holding at most one value - the
 * representation the harness then reads back. */
#include "h_common.h"
#include "spec_cal.h"
#include "spec_view.h"
#include <string.h>
#include "bitint.h"

#if !defined REPLAY
static void h_ass383(bitint383_t *restrict bi, int x)
{
	/* native storage: pos[0] >> 1 = number of values, values in neg[] */
	ASSERT(bi->pos[0] == 0U, "harness model: at most one value per container");
	bi->neg[0] = x;
	bi->pos[0] = 2U;
}
static int h_next383(bitint_iter_t *restrict iter, const bitint383_t *bi)
{
	if (*iter >= (bi->pos[0] >> 1U)) {
		*iter = 0U;
		return 0;
	}
	return bi->neg[(*iter)++];
}
# define ass_bi383(bi, x)	h_ass383(bi, x)
# define bi383_next(it, bi)	h_next383(it, bi)
static int h_next447(bitint_iter_t *restrict iter, const bitint447_t *bi);
# define bi447_next(it, bi)	h_next447(it, bi)
/* scale.c's dispatchers on the Gregorian scale (discharged by C15.dispatch / C15.greg) */
# include "scale.h"
# define echs_scale_ndim(s, y, m)	((unsigned int)S_MDAYS(y, m))
# define echs_scale_wday(s, y, m, d)	((echs_wday_t)S_WDAY(y, m, d))
#endif	/* !REPLAY */
#include "evrrul.c"

void h_C17_shift_days(void)
{
	IN_RANGE(unsigned, y, 1902, 2098);
	IN_RANGE(unsigned, m, 1, 12);
	IN_RANGE(unsigned, d, 1, 31);
#if !defined SHIFT_NMAX
# define SHIFT_NMAX	366
#endif
	IN_RANGE(int, n, -SHIFT_NMAX, SHIFT_NMAX);
	ASSUME(S_VALID_DATE(y, m, d) && n != 0);
	static bitint383_t cand[3];
	memset(cand, 0, sizeof(cand));
	ass_bi383(&cand[0], (int)pack_cand(m, d));
	shift(cand, y, (echs_shift_t)(n * 65536));
	/* exactly one candidate comes out */
	unsigned c0 = CNT_383(&cand[0]), c1 = CNT_383(&cand[1]), c2 = CNT_383(&cand[2]);
	ASSERT(!BS_383(&cand[0]) && !BS_383(&cand[1]) && !BS_383(&cand[2]) && c0 + c1 + c2 == 1U, "SHIFT=N: one date in, one date out");
	unsigned b = c0 ? 0U : c1 ? 1U : 2U;
	struct md_s r = unpack_cand((unsigned)cand[b].neg[0]);
	unsigned ry = b == 0U ? y : b == 1U ? y - 1U : y + 1U;
	ASSERT(S_VALID_DATE(ry, r.m, r.d), "SHIFT=N: the shifted date is a real date of the year it is filed under (same / previous / next)");
	ASSERT(S_DAYNO(ry, r.m, r.d) == S_DAYNO(y, m, d) + n, "SHIFT=N moves the date by exactly N calendar days");
#if SHIFT_NMAX >= 92
	if (b == 2U && S_LEAP(y) != S_LEAP(y + 1U) && r.m >= 3U) { SENTINEL("shift across next year's February"); }
#endif
	if (b == 2U) { SENTINEL("shift into the next year"); }
	if (b == 1U) { SENTINEL("shift into the previous year"); }
	if (n == SHIFT_NMAX) { SENTINEL("shift by the largest amount"); }
	SENTINEL("shift days");
}

/* SHIFT=NB (business days) on one candidate that is itself a business day:
 * the result is the N-th business day after (before) it.  A weekend
 * candidate first moves to the adjacent business day in the direction of the
 * shift (-0B: back to Friday); whether that move counts as one of the N is
 * not fixed by the property's text, so for weekend candidates only this is
 * demanded: the result is a business day on the side of the shift and N or
 * N - 1 business days away from the adjacent one. */
#if !defined SHIFT_BMAX
# define SHIFT_BMAX	23
#endif
/* calendar days spanned by n >= 0 business days forward from weekday w0 (Mon = 0 .. Fri = 4) */
#define S_BDAYS_FWD(w0, n)	((n) + 2 * (((w0) + (n)) / 5))
void h_C17_shift_bdays(void)
{
	IN_RANGE(unsigned, y, 1902, 2098);
	IN_RANGE(unsigned, m, 1, 12);
	IN_RANGE(unsigned, d, 1, 31);
#if defined SHIFT_BMIN
	IN_RANGE(int, n, SHIFT_BMIN, SHIFT_BMAX);	/* magnitude */
#else
	IN_RANGE(int, n, 0, SHIFT_BMAX);	/* magnitude */
#endif
	IN_BOOL(neg); IN_BOOL(inv);
	ASSUME(S_VALID_DATE(y, m, d));
	const int wd = S_WDAY(y, m, d);	/* Mon = 1 .. Sun = 7 */
	/* encoding of shift.h: value << 2 | inverted << 1 | sign */
	const echs_shift_t sh = (echs_shift_t)(((unsigned)n << 2U) | ((unsigned)inv << 1U) | (unsigned)neg);
	ASSUME(echs_shift_bday_p(sh));
	static bitint383_t cand[3];
	memset(cand, 0, sizeof(cand));
	ass_bi383(&cand[0], (int)pack_cand(m, d));
	shift(cand, y, sh);
	unsigned c0 = CNT_383(&cand[0]), c1 = CNT_383(&cand[1]), c2 = CNT_383(&cand[2]);
	ASSERT(!BS_383(&cand[0]) && !BS_383(&cand[1]) && !BS_383(&cand[2]) && c0 + c1 + c2 == 1U, "SHIFT=NB: one date in, one date out");
	unsigned b = c0 ? 0U : c1 ? 1U : 2U;
	struct md_s r = unpack_cand((unsigned)cand[b].neg[0]);
	unsigned ry = b == 0U ? y : b == 1U ? y - 1U : y + 1U;
	ASSERT(S_VALID_DATE(ry, r.m, r.d), "SHIFT=NB: the shifted date is a real date of the year it is filed under");
	const int moved = S_DAYNO(ry, r.m, r.d) - S_DAYNO(y, m, d);
	ASSERT(S_WDAY(ry, r.m, r.d) <= 5, "SHIFT=NB: the result is a business day (Mon..Fri)");
	if (wd <= 5) {
		if (!neg) {
			ASSERT(moved == S_BDAYS_FWD(wd - 1, n), "SHIFT=NB from a business day: the N-th business day after it");
		} else {
			ASSERT(moved == -S_BDAYS_FWD(5 - wd, n), "SHIFT=-NB from a business day: the N-th business day before it");
		}
		SENTINEL("shift bdays from a business day");
	} else {
		/* adjacent business day in the direction of the shift */
		const int adj = !neg ? 8 - wd : -(wd - 5);
		if (!neg) {
			ASSERT(moved == adj + S_BDAYS_FWD(0, n) || (n > 0 && moved == adj + S_BDAYS_FWD(0, n - 1)), "SHIFT=NB from a weekend: Monday, then N (or N - 1) business days on");
		} else {
			ASSERT(moved == adj - S_BDAYS_FWD(0, n) || (n > 0 && moved == adj - S_BDAYS_FWD(0, n - 1)), "SHIFT=-NB from a weekend: Friday, then N (or N - 1) business days back");
		}
		if (n == 0 && neg) { SENTINEL("shift -0B from a weekend"); }
		SENTINEL("shift bdays from a weekend");
	}
	if (n == SHIFT_BMAX) { SENTINEL("shift bdays largest amount"); }
	SENTINEL("shift bdays");
}

/* BYEASTER=N: fill_yly_eastr files, for year y, the day N days from Easter
 * Sunday of y - one offset at a time (the loop treats every offset on its
 * own).  Region split: the day lies inside year y (main obligation) or in a
 * neighbouring year (known finding KF-C17-easter-outside-year: the yearly
 * filler has nowhere to file it and drops it). */
void h_C17_fill_yly_eastr(void)
{
	IN_RANGE(unsigned, y, 1901, 2099);
	IN_RANGE(int, offs, -366, 366);
	static bitint383_t cand[1], s[1];
	memset(cand, 0, sizeof(cand));
	memset(s, 0, sizeof(s));
	ass_bi383(s, offs);
	const int em = S_EASTER_M(y), ed = S_EASTER_D(y);
	const int want = S_YDAY(y, em, ed) + offs;
	const int inside = 1 <= want && want <= S_YDAYS(y);
#if defined REGION_EASTER_OUTSIDE_YEAR
	ASSUME(!inside);
#endif
	fill_yly_eastr(cand, y, s, 0U, (bitint31_t){0U, 0}, 0U);
#if defined REGION_EASTER_OUTSIDE_YEAR
	ASSERT(!BS_383(cand) && CNT_383(cand) == 1U, "BYEASTER=N selects one day for every year");
#else
	/* whatever is selected is right, also when the target lies outside the year */
	ASSERT(!BS_383(cand) && CNT_383(cand) <= 1U, "at most one day per offset");
	ASSERT(!inside || CNT_383(cand) == 1U, "BYEASTER=N selects one day for every year (target inside the year)");
	if (CNT_383(cand) == 1U) {
		struct md_s r = unpack_cand((unsigned)cand->neg[0]);
		ASSERT(S_VALID_DATE(y, r.m, r.d), "the selected day is a real date of year y");
		ASSERT(S_DAYNO(y, r.m, r.d) == S_DAYNO(y, em, ed) + offs, "the selected day is exactly N days after (before) Easter Sunday");
	}
	if (!inside) { SENTINEL("easter target outside the year"); }
#endif
	if (offs == 0) { SENTINEL("easter itself"); }
	if (offs < -80) { SENTINEL("easter large negative offset"); }
	SENTINEL("fill_yly_eastr");
}

/* ---- C01: set builders of the YEARLY filler, one value at a time ---- */
/* BYYEARDAY=N */
void h_C01_fill_yly_yd(void)
{
	IN_RANGE(unsigned, y, 1901, 2099);
	IN_RANGE(int, n, -366, 366);
	ASSUME(n != 0);
	static bitint383_t cand[1], s[1];
	memset(cand, 0, sizeof(cand));
	memset(s, 0, sizeof(s));
	ass_bi383(s, n);
	fill_yly_yd(cand, y, s, 0U);
	const int want = n > 0 ? n : S_YDAYS(y) + 1 + n;	/* -1 = last day of the year */
	if (1 <= want && want <= S_YDAYS(y)) {
		ASSERT(!BS_383(cand) && CNT_383(cand) == 1U, "BYYEARDAY=N selects one day in a year that has an N-th day");
		struct md_s r = unpack_cand((unsigned)cand->neg[0]);
		ASSERT(S_VALID_DATE(y, r.m, r.d) && S_YDAY(y, r.m, r.d) == want, "BYYEARDAY=N selects the N-th day of the year (counted from the end for negative N)");
		SENTINEL("fill_yly_yd inside");
	} else {
		ASSERT(!BS_383(cand) && CNT_383(cand) == 0U, "BYYEARDAY=366 / -366 selects nothing in a common year");
		SENTINEL("fill_yly_yd no such day");
	}
	SENTINEL("fill_yly_yd");
}

/* BYDAY=<n><weekday> in a YEARLY rule without BYMONTH: the n-th such weekday of the year */
#if !defined REPLAY
static int h_next447(bitint_iter_t *restrict iter, const bitint447_t *bi)
{
	if (*iter >= (bi->pos[0] >> 1U)) {
		*iter = 0U;
		return 0;
	}
	return bi->neg[(*iter)++];
}
#endif
void h_C01_fill_yly_ycw(void)
{
	IN_RANGE(unsigned, y, 1901, 2099);
	IN_RANGE(int, c, -53, 53);
	IN_RANGE(unsigned, w, 1, 7);
	ASSUME(c != 0);
	static bitint383_t cand[1];
	static bitint447_t dow[1];
	memset(cand, 0, sizeof(cand));
	memset(dow, 0, sizeof(dow));
	/* native storage of one value */
	dow->neg[0] = pack_cd(CD(c, (echs_wday_t)w));
	dow->pos[0] = 2U;
	fill_yly_ycw(cand, y, dow);
	const int ny = S_YDAYS(y);
	const int first = 1 + ((int)w - S_WDAY(y, 1, 1) + 7) % 7;
	const int cnt = (ny - first) / 7 + 1;
	if ((c > 0 && c <= cnt) || (c < 0 && -c <= cnt)) {
		const int want = c > 0 ? first + 7 * (c - 1) : first + 7 * (cnt + c);
		ASSERT(!BS_383(cand) && CNT_383(cand) == 1U, "BYDAY=nXX selects one day in a year that has an n-th such weekday");
		struct md_s r = unpack_cand((unsigned)cand->neg[0]);
		ASSERT(S_VALID_DATE(y, r.m, r.d) && S_YDAY(y, r.m, r.d) == want && S_WDAY(y, r.m, r.d) == (int)w, "BYDAY=nXX selects the n-th (n-th last) such weekday of the year");
		SENTINEL("fill_yly_ycw inside");
	} else {
		ASSERT(!BS_383(cand) && CNT_383(cand) == 0U, "BYDAY=53XX / -53XX selects nothing in a year with only 52 such weekdays");
		SENTINEL("fill_yly_ycw no such weekday");
	}
	SENTINEL("fill_yly_ycw");
}

/* BYWEEKNO=W;BYDAY=XX in a YEARLY rule: the weekday XX of ISO week W */
#if !defined REPLAY
static int h_next63_val;
#endif
void h_C01_fill_yly_ywd(void)
{
	IN_RANGE(unsigned, y, 1902, 2098);
	IN_RANGE(int, wk, -53, 53);
	IN_RANGE(unsigned, wd, 1, 7);
	ASSUME(wk != 0);
	static bitint383_t cand[1];
	static bitint447_t dow[1];
	memset(cand, 0, sizeof(cand));
	memset(dow, 0, sizeof(dow));
	dow->neg[0] = (int)wd;	/* plain weekday, no ordinal */
	dow->pos[0] = 2U;
	/* one week number in the real 63-bit container */
	bitint63_t woy = ass_bi63((bitint63_t){0U, 0}, wk);
	const int nw = S_ISOWEEKS(y);
	const int w = wk > 0 ? wk : nw + 1 + wk;
	const int want = S_W1MON(y) + 7 * (w - 1) + ((int)wd - 1);	/* ordinal day, may lie outside the year */
	const int exists = wk <= nw && -wk <= nw;
	const int inside = exists && 1 <= want && want <= S_YDAYS(y);
#if defined REGION_YWD_OUTSIDE_YEAR
	ASSUME(exists && !inside);
#else
	ASSUME(!exists || inside);
#endif
	fill_yly_ywd(cand, y, woy, dow);
	if (!exists) {
		ASSERT(!BS_383(cand) && CNT_383(cand) == 0U, "BYWEEKNO=53 / -53 selects nothing in a year with 52 ISO weeks");
#if !defined REGION_YWD_OUTSIDE_YEAR
		SENTINEL("fill_yly_ywd no such week");
#endif
	} else if (inside) {
		ASSERT(!BS_383(cand) && CNT_383(cand) == 1U, "BYWEEKNO=W;BYDAY=XX selects one day");
		struct md_s r = unpack_cand((unsigned)cand->neg[0]);
		ASSERT(S_VALID_DATE(y, r.m, r.d) && S_YDAY(y, r.m, r.d) == want && S_WDAY(y, r.m, r.d) == (int)wd, "BYWEEKNO=W;BYDAY=XX selects weekday XX of ISO week W (counted from the end for negative W)");
#if !defined REGION_YWD_OUTSIDE_YEAR
		SENTINEL("fill_yly_ywd inside");
#endif
	} else {
		/* region of known finding KF-C01-ywd-outside-year: the day belongs to a
		 * neighbouring calendar year; filing it under year y puts it a year off */
		ASSERT(!BS_383(cand) && CNT_383(cand) == 0U, "a day of week W that lies in a neighbouring calendar year is not filed under this year");
#if defined REGION_YWD_OUTSIDE_YEAR
		SENTINEL("fill_yly_ywd outside");
#endif
	}
	SENTINEL("fill_yly_ywd");
}

/* BYMONTHDAY=N in month mo (MONTHLY rules, YEARLY rules with BYMONTH), optionally limited by plain BYDAY weekdays */
void h_C01_fill_mly_ymd(void)
{
	IN_RANGE(unsigned, y, 1901, 2099);
	IN_RANGE(unsigned, mo, 1, 12);
	IN_RANGE(int, n, -31, 31);
	IN_RANGE(unsigned, wdm, 0, 255);	/* bit w = weekday w allowed, bit 0 = ordinals present (ignored here) */
	ASSUME(n != 0);
	static bitint383_t cand[1];
	static int d[2U * 31U];
	memset(cand, 0, sizeof(cand));
	memset(d, 0, sizeof(d));
	d[0] = n;
	fill_mly_ymd(cand, SCALE_GREGORIAN, y, mo, d, 1U, (uint8_t)wdm);
	const int ndim = S_MDAYS(y, mo);
	const int want = n > 0 ? n : ndim + 1 + n;	/* -1 = last day of the month */
	const int exists = 1 <= want && want <= ndim;
	const int allowed = exists && (!(wdm >> 1U) || ((wdm >> S_WDAY(y, mo, exists ? want : 1)) & 1U));
	if (allowed) {
		ASSERT(!BS_383(cand) && CNT_383(cand) == 1U, "BYMONTHDAY=N selects one day in a month that has an N-th (N-th last) day on an allowed weekday");
		struct md_s r = unpack_cand((unsigned)cand->neg[0]);
		ASSERT(r.m == mo && (int)r.d == want, "BYMONTHDAY=N selects the N-th day of the month, counted from the end for negative N");
		SENTINEL("fill_mly_ymd selected");
	} else {
		ASSERT(!BS_383(cand) && CNT_383(cand) == 0U, "BYMONTHDAY beyond the month length (either sign) or on a weekday not listed selects nothing");
		if (!exists && n < 0) { SENTINEL("fill_mly_ymd negative beyond the month"); }
		SENTINEL("fill_mly_ymd nothing");
	}
	SENTINEL("fill_mly_ymd");
}

/* BYDAY=nXX in month m (MONTHLY rules): the n-th such weekday of the month */
void h_C01_fill_mly_ymcw(void)
{
	IN_RANGE(unsigned, y, 1901, 2099);
	IN_RANGE(unsigned, mo, 1, 12);
	IN_RANGE(int, c, -5, 5);
	IN_RANGE(unsigned, w, 1, 7);
	ASSUME(c != 0);
	static bitint383_t cand[1];
	static bitint447_t dow[1];
	memset(cand, 0, sizeof(cand));
	memset(dow, 0, sizeof(dow));
	dow->neg[0] = pack_cd(CD(c, (echs_wday_t)w));
	dow->pos[0] = 2U;
	fill_mly_ymcw(cand, y, mo, dow);
	const int ndim = S_MDAYS(y, mo);
	const int first = 1 + ((int)w - S_WDAY(y, mo, 1) + 7) % 7;
	const int cnt = (ndim - first) / 7 + 1;
	if ((c > 0 && c <= cnt) || (c < 0 && -c <= cnt)) {
		const int want = c > 0 ? first + 7 * (c - 1) : first + 7 * (cnt + c);
		ASSERT(!BS_383(cand) && CNT_383(cand) == 1U, "BYDAY=nXX selects one day in a month that has an n-th such weekday");
		struct md_s r = unpack_cand((unsigned)cand->neg[0]);
		ASSERT(r.m == mo && (int)r.d == want, "BYDAY=nXX selects the n-th (n-th last) such weekday of the month");
		SENTINEL("fill_mly_ymcw selected");
	} else {
		ASSERT(!BS_383(cand) && CNT_383(cand) == 0U, "BYDAY=5XX / -5XX selects nothing in a month with only four such weekdays");
		SENTINEL("fill_mly_ymcw nothing");
	}
	SENTINEL("fill_mly_ymcw");
}

/* BYSETPOS=P on a candidate set of 0..3 days (native list, rank order) */
void h_C01_clr_poss(void)
{
	IN_RANGE(unsigned, n, 0, 3);
	IN_RANGE(int, c1, 1, 383); IN_RANGE(int, c2, 1, 383); IN_RANGE(int, c3, 1, 383);
	IN_RANGE(int, p, -4, 4);
	ASSUME(p != 0 && c1 < c2 && c2 < c3);
	static bitint383_t cand[1], poss[1];
	memset(cand, 0, sizeof(cand));
	memset(poss, 0, sizeof(poss));
	cand->pos[0] = n << 1U;
	if (n > 0U) { cand->neg[0] = c1; }
	if (n > 1U) { cand->neg[1] = c2; }
	if (n > 2U) { cand->neg[2] = c3; }
	poss->neg[0] = p;
	poss->pos[0] = 2U;
	const int cs[3] = {c1, c2, c3};
	clr_poss(cand, poss);
	const int k = p > 0 ? p : (int)n + 1 + p;	/* 1-based rank asked for */
	if (1 <= k && k <= (int)n) {
		ASSERT(!BS_383(cand) && CNT_383(cand) == 1U && cand->neg[0] == cs[k - 1], "BYSETPOS=P keeps exactly the P-th (P-th last) day of the set");
		SENTINEL("clr_poss kept");
	} else {
		ASSERT(!BS_383(cand) && CNT_383(cand) == 0U, "BYSETPOS beyond the size of the set keeps nothing");
		SENTINEL("clr_poss nothing");
	}
	if (p < 0 && n == 3U) { SENTINEL("clr_poss from the end"); }
	SENTINEL("clr_poss");
}
