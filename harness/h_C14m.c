/* h_C14m.c -- evical.c: the fields with an 'upped by one' encoding on their way
 * text -> snarf_fld -> make_task -> send_task -> text (C12 X-ECHS-MAX-SIMUL,
 * umask), and make_task's classification of an execution request into
 * TIMEOUT / DUE (C14).
 * strtol is a stub returning an arbitrary long and consuming the whole value
 * (libc number reading trusted); fdprnt.h is replaced by a fixed-arity
 * recorder (CBMC's variadic-call model does not promote bit-field arguments);
 * echs_instant_utc (zone conversion) is stubbed; the instants used here carry
 * no zone, so it is never reached. */
#include "h_common.h"
#include <stdlib.h>
#include <string.h>
#include <unistd.h>
#include "instant.h"
#include "tzob.h"

static long g_num;
static unsigned g_nnum;
static long h_strtol(const char *s, char **on, int base)
{
	(void)base;
	if (on != NULL) {
		*on = (char*)s + strlen(s);
	}
	g_nnum++;
	return g_num;
}
#define strtol	h_strtol
/* instants here carry no zone, so echs_instant_to_utc never reaches this */
#define echs_instant_utc(i, z)	(i)

#define INCLUDED_fdprnt_h_
static unsigned g_ms_lines, g_um_lines;
static long g_ms_val, g_um_val;
static int fdbang(int fd) { (void)fd; return 0; }
static ssize_t fdflush(void) { return 0; }
static int fdputc(int c) { (void)c; return 0; }
static ssize_t fdwrite(const char *str, size_t len) { (void)str; return (ssize_t)len; }
static int h_fdp(const char *fmt, intptr_t a)
{
	if (fmt[0] == 'X' && fmt[1] == '-' && fmt[7] == 'M' && fmt[8] == 'A' && fmt[9] == 'X') {
		/* X-ECHS-MAX-SIMUL:%d */
		g_ms_lines++;
		g_ms_val = (long)a;
	} else if (fmt[0] == 'X' && fmt[1] == '-' && fmt[7] == 'U' && fmt[8] == 'M') {
		/* X-ECHS-UMASK:0%o */
		g_um_lines++;
		g_um_val = (long)a;
	}
	return 1;
}
#define H_FDP(fmt, a, ...)	h_fdp(fmt, (intptr_t)(a))
#define fdprintf(fmt, args...)	H_FDP(fmt, ## args, 0)
#include "evical.c"
const char *obint_name(obint_t x) { (void)x; return "uid"; }
/* formatters of the TIMEOUT / DUE / COMPLETED lines (C18): not on the path of the tasks built here */
size_t idiff_strf(char *restrict buf, size_t bsz, echs_idiff_t idiff) { (void)buf; (void)bsz; (void)idiff; return 0U; }
size_t dt_strf_ical(char *restrict buf, size_t bsz, echs_instant_t inst) { (void)buf; (void)bsz; (void)inst; return 0U; }

/* X-ECHS-MAX-SIMUL:<v> read, turned into a task, written again */
void h_C12_max_simul_text(void)
{
	static struct ical_vevent_s ve;
	static const char val[] = "17";	/* placeholder digits, the value is symbolic */
	IN(long, v);
	IN_BOOL(given);
	IN_RANGE(unsigned, dflt, 0, 63);	/* the calendar-level default the VEVENT starts with (upped by one, 0 = none) */
	memset(&ve, 0, sizeof(ve));
	ve.t.oid = 1U;
	ve.t.max_simul = dflt;		/* _ical_proc: p->ve.t = p->globve.t at BEGIN:VEVENT */
	g_num = v, g_nnum = 0U;
	g_ms_lines = g_um_lines = 0U;
	if (given) {
		(void)snarf_fld(&ve, FLD_MAX_SIMUL, val + 2, val, val + 2);
	}
	echs_task_t t = make_task(&ve);
	if (t == NULL) {
		return;
	}
	/* the event's own usable value wins over the default; what is held is N, 63 = unlimited */
	const unsigned want = (given && 0 <= v && v < 63) ? (unsigned)v : ((dflt - 1U) & 63U);
	ASSERT(t->max_simul == want, "X-ECHS-MAX-SIMUL:N of the event is held as N (N = 0..62), else the calendar default, else unlimited");
	send_task(5, t);
	if (want < 63U) {
		ASSERT(g_ms_lines == 1U && g_ms_val == (long)want, "a limited task is written with the very N it holds");
		SENTINEL("max simul limited");
	} else {
		ASSERT(g_ms_lines == 0U, "an unlimited task is written without X-ECHS-MAX-SIMUL");
	}
	if (given && dflt && 0 <= v && v < 63 && (unsigned)v + 1U != dflt) { SENTINEL("max simul overrides default"); }
	SENTINEL("max simul text");
}

/* X-ECHS-UMASK likewise */
void h_C05_umask_text(void)
{
	static struct ical_vevent_s ve;
	static const char val[] = "022";
	IN(long, v);
	IN_BOOL(given);
	memset(&ve, 0, sizeof(ve));
	ve.t.oid = 1U;
	g_num = v, g_nnum = 0U;
	g_ms_lines = g_um_lines = 0U;
	if (given) {
		(void)snarf_fld(&ve, FLD_UMASK, val + 3, val, val + 3);
	}
	echs_task_t t = make_task(&ve);
	if (t == NULL) {
		return;
	}
	send_task(5, t);
	if (given && 0 <= v && v <= 0777) {
		ASSERT(g_um_lines == 1U && g_um_val == v, "a umask is written with the very value it was read with");
		SENTINEL("umask given");
	} else {
		ASSERT(g_um_lines == 0U, "an absent or unusable umask is not written");
	}
	SENTINEL("umask text");
}

/* an execution request (VTODO without DTSTART): which limit the executor gets */
void h_C14_make_task_vtodo(void)
{
	static struct ical_vevent_s ve;
	IN(int64_t, dur);
	IN(uint64_t, due);
	memset(&ve, 0, sizeof(ve));
	ve.t.oid = 1U;
	ve.dur.d = dur;
	ve.due.u = due;
	echs_task_t t = make_task(&ve);
	if (t == NULL) {
		return;
	}
	ASSERT(t->strm == NULL, "an execution request has no recurrence stream");
	if (dur > 0) {
		ASSERT(t->vtod_typ == VTOD_TYP_TIMEOUT && t->timeout.d == dur, "a positive DURATION becomes the timeout, unchanged");
		SENTINEL("vtodo timeout");
	} else if (due != 0U) {
		ASSERT(t->vtod_typ == VTOD_TYP_DUE && t->due.u == due, "without DURATION a DUE time becomes the deadline, unchanged");
		SENTINEL("vtodo due");
	} else {
		ASSERT(t->vtod_typ == VTOD_TYP_UNK, "no limit: none is invented");
	}
	SENTINEL("make_task vtodo");
}

/* several EXDATE (RDATE) property lines of one VEVENT: every line's dates end up
 * in the event's exception (addition) list - RFC 5545 allows the property to
 * occur more than once.  dt_strp is a stub handing out symbolic instants in
 * order (the text form itself: C18); the list splitting at ',' is the real code */
static echs_instant_t g_dt[4];
static unsigned g_ndt;
echs_instant_t dt_strp(const char *str, char **on, size_t len)
{
	if (on != NULL) {
		*on = (char*)str + len;
	}
	return g_dt[g_ndt++ & 3U];
}

void h_C02_date_lines(void)
{
	static struct ical_vevent_s ve;
	static const char l1[] = ":1,2";	/* placeholder text: two values */
	static const char l2[] = ":3";		/* one value */
	IN(uint64_t, d0); IN(uint64_t, d1); IN(uint64_t, d2);
	IN_BOOL(rd);
	const ical_fld_t fld = rd ? FLD_RDATE : FLD_XDATE;
	memset(&ve, 0, sizeof(ve));
	g_dt[0].u = d0, g_dt[1].u = d1, g_dt[2].u = d2, g_dt[3].u = 0U;
	g_ndt = 0U;
	__CPROVER_assume(!echs_instant_0_p(g_dt[0]) && !echs_instant_0_p(g_dt[1]) && !echs_instant_0_p(g_dt[2]));
	(void)snarf_fld(&ve, fld, l1, l1 + 1, l1 + 4);
	(void)snarf_fld(&ve, fld, l2, l2 + 1, l2 + 2);
	const struct dtlst_s *t = rd ? &ve.rdat : &ve.xdat;
	const struct dtlst_s *o = rd ? &ve.xdat : &ve.rdat;
	ASSERT(g_ndt == 3U, "every value of every line is read once");
	ASSERT(t->ndt == 3U, "two EXDATE (RDATE) lines with 2 + 1 values: the event's list holds all 3");
	if (t->ndt == 3U) {
		IN_RANGE(unsigned, w, 0, 2);
		if (w < 3U) {
			const echs_instant_t want = echs_instant_attach_scale(echs_instant_attach_tzob(g_dt[w], 0U), SCALE_GREGORIAN);
			ASSERT(t->dt[w].u == want.u, "each value is held as read, in the order of the lines");
		}
	}
	ASSERT(o->ndt == 0U && o->dt == NULL, "the other list (RDATE vs EXDATE) is untouched");
	SENTINEL("date lines");
}
