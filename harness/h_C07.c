/* h_C07.c -- zone lookups of tzraw.c in an abstract zone: NTR transitions
 * (symbolic, strictly increasing), symbolic types and offsets.  Zone FILES
 * are configuration; the proofs are for every well-formed zone within the
 * bound (strictly increasing transitions, type indices < typecnt). */
#include "h_common.h"
#include <string.h>
#include "tzraw.c"

#if !defined NTR
# define NTR	4
#endif
#define NTY	3
static struct zih_s g_hdr;
static int32_t g_trs[NTR];
static uint8_t g_tys[NTR];
static struct ztrdtl_s g_tda[NTY];
static struct zif_s g_z;

#define IN_ZONE()								\
	IN_RANGE(unsigned, ntr, 0, NTR);					\
	IN(int32_t, tr0); IN(int32_t, tr1); IN(int32_t, tr2); IN(int32_t, tr3);	\
	IN_RANGE(unsigned, ty0, 0, NTY - 1); IN_RANGE(unsigned, ty1, 0, NTY - 1); IN_RANGE(unsigned, ty2, 0, NTY - 1); IN_RANGE(unsigned, ty3, 0, NTY - 1); \
	IN_RANGE(int, of0, -50400, 50400); IN_RANGE(int, of1, -50400, 50400); IN_RANGE(int, of2, -50400, 50400); \
	ASSUME(tr0 < tr1 && tr1 < tr2 && tr2 < tr3 && tr0 > INT_MIN);		\
	g_trs[0] = tr0, g_trs[1] = tr1, g_trs[2] = tr2, g_trs[3] = tr3;		\
	g_tys[0] = ty0, g_tys[1] = ty1, g_tys[2] = ty2, g_tys[3] = ty3;		\
	g_tda[0].offs = of0, g_tda[1].offs = of1, g_tda[2].offs = of2;		\
	memset(&g_z, 0, sizeof(g_z));						\
	g_hdr.tzh_timecnt = ntr, g_hdr.tzh_typecnt = NTY;			\
	g_z.hdr = &g_hdr, g_z.trs = g_trs, g_z.tys = g_tys, g_z.tda = g_tda

/* the spec: index of the last transition at or before t, -1 if none */
static int spec_trno(unsigned ntr, int32_t t)
{
	int r = -1;
	for (unsigned i = 0; i < NTR; i++) {
		if (i < ntr && g_trs[i] <= t) {
			r = (int)i;
		}
	}
	return r;
}
/* the offset in force at t: that of the last transition at or before t;
 * before the first transition the zone's first recorded offset is taken
 * ("assume the first offset has always been there", tzraw.c) */
#define SPEC_OFFS(ntr, t)	(g_tda[g_tys[spec_trno(ntr, t) < 0 ? 0 : spec_trno(ntr, t)]].offs)

/* __find_trno: the interval containing t, and it terminates */
void h_C07_find_trno(void)
{
	IN_ZONE();
	IN(int32_t, t);
	int r = __find_trno(&g_z, t, 0, (int)ntr);
	ASSERT(r == spec_trno(ntr, t), "__find_trno: index of the last transition at or before t (-1 before the first)");
	if (ntr == NTR && t == tr3) { SENTINEL("find_trno t equals the last transition"); }
	if (ntr == NTR && t == tr1) { SENTINEL("find_trno t equals an inner transition"); }
	SENTINEL("find_trno");
}

/* __offs from a fresh (zeroed) cache, then again: offset in force, cache coherent */
void h_C07_offs(void)
{
	IN_ZONE();
	IN(int32_t, t0);
	IN(int32_t, t1);
	IN(int32_t, tw);
	ASSUME(ntr >= 1U);
	int32_t o0 = __offs(&g_z, t0);
	ASSERT(o0 == SPEC_OFFS(ntr, t0), "__offs (fresh cache): the offset in force at t");
	ASSERT(g_z.cache.prev <= t0 && (t0 < g_z.cache.next || g_z.cache.next == INT_MAX), "__offs: the cached range contains t (INT_MAX stands for no upper end)");
	ASSERT(!(g_z.cache.prev <= tw && tw < g_z.cache.next) || SPEC_OFFS(ntr, tw) == g_z.cache.offs, "__offs: the cached offset is in force on the whole cached range");
	int32_t o1 = __offs(&g_z, t1);
	ASSERT(o1 == SPEC_OFFS(ntr, t1), "__offs (after an arbitrary earlier lookup): the offset in force at t");
	ASSERT(!(g_z.cache.prev <= tw && tw < g_z.cache.next) || SPEC_OFFS(ntr, tw) == g_z.cache.offs, "__offs: the cache stays coherent");
	/* inductive step: whatever was looked up before, the cache is what a search of the whole table yields for t1 */
	struct zrng_s full = __find_zrng(&g_z, t1, 0, (int)ntr);
	ASSERT(full.prev == g_z.cache.prev && full.next == g_z.cache.next && full.offs == g_z.cache.offs && full.trno == g_z.cache.trno,
	       "__offs: the cache after a lookup equals the result of a full search for that time (so every reachable cache is a full-search result)");
	if (t0 < 0 && t1 > tr3) { SENTINEL("offs first lookup before 1970"); }
	if (t1 == tr2) { SENTINEL("offs exactly at a transition"); }
	SENTINEL("offs");
}

/* local <-> UTC in the abstract zone */
void h_C07_utc_local(void)
{
	IN_ZONE();
	IN_RANGE(int32_t, u, -2000000000, 2000000000);
	ASSUME(ntr >= 1U);
	time_t loc = zif_local_time(&g_z, (time_t)u);
	ASSERT(loc == (time_t)u + SPEC_OFFS(ntr, u), "zif_local_time: UTC + the offset in force");
	/* the local time is unambiguous and exists if no other UTC instant maps to it:
	 * a sufficient condition is that u is more than a day away from every transition */
	bool clear = true;
	for (unsigned i = 0; i < NTR; i++) {
		if (i < ntr && (int64_t)g_trs[i] - 100000 < (int64_t)u && (int64_t)u < (int64_t)g_trs[i] + 100000) {
			clear = false;
		}
	}
	if (clear) {
		time_t back = zif_utc_time(&g_z, loc);
		ASSERT(back == (time_t)u, "zif_utc_time(zif_local_time(u)) == u for local times away from transitions");
		SENTINEL("utc_local roundtrip");
	}
	SENTINEL("utc_local");
}
