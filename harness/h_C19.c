/* h_C19.c -- obligations on bitint.h (inline containers); the real header is included */
#include "h_common.h"
#define CONTRACT_DECLS_bitint
#include "contracts_bitint.h"

/* ---------------------------------------------------------- insertion */
void h_C19_ass_bui31(void)
{
	IN(uint32_t, bi);
	IN_RANGE(unsigned, x, 0, 30);
	ASSUME(PRE_ass_bui31(bi, x));
	bituint31_t r = ass_bui31(bi, x);
	ASSERT(POST_ass_bui31(r, bi, x), "ass_bui31: view(ret) == view(bi) U {x}, well-formed");
	IN_RANGE(unsigned, q, 0, 30);
	ASSERT(bui31_has_bit_p(r, q) == (((VU31(bi) | (1U << x)) >> q) & 1U), "bui31_has_bit_p(ret,q) <=> q == x or q in bi");
	ASSERT(bui31_has_bits_p(r), "non-empty after insertion");
	if (bi == 0U && x == 0U) { SENTINEL("ass_bui31 lone zero"); }
	if (SINGLE_BUI(bi)) { SENTINEL("ass_bui31 degrade"); }
	SENTINEL("ass_bui31");
}

void h_C19_ass_bui63(void)
{
	IN(uint64_t, bi);
	IN_RANGE(unsigned, x, 0, 62);
	ASSUME(PRE_ass_bui63(bi, x));
	bituint63_t r = ass_bui63(bi, x);
	ASSERT(POST_ass_bui63(r, bi, x), "ass_bui63: view(ret) == view(bi) U {x}, well-formed");
	ASSERT(bui63_has_bits_p(r), "non-empty after insertion");
	if (SINGLE_BUI(bi)) { SENTINEL("ass_bui63 degrade"); }
	SENTINEL("ass_bui63");
}

void h_C19_ass_bi31(void)
{
	IN(uint32_t, pos);
	IN(int32_t, neg);
	IN_RANGE(int, x, -31, 31);
	bitint31_t bi = {pos, neg};
	ASSUME(PRE_ass_bi31(bi, x));
	bitint31_t r = ass_bi31(bi, x);
	ASSERT(POST_ass_bi31(r, bi, x), "ass_bi31: view(ret) == view(bi) U {x}, well-formed");
	IN_RANGE(int, q, -31, 31);
	bool want = q > 0 ? ((VP31(bi) | (x > 0 ? 1U << x : 0U)) >> q) & 1U : ((VN31(bi) | (x <= 0 ? 1U << -x : 0U)) >> -q) & 1U;
	ASSERT(bi31_has_bit_p(r, q) == want, "bi31_has_bit_p(ret,q) <=> q == x or q in bi");
	ASSERT(bi31_has_bits_p(r), "non-empty after insertion");
	if (SINGLE_BI(bi) && bi.neg == 0) { SENTINEL("ass_bi31 degrade lone zero"); }
	if (SINGLE_BI(bi) && bi.neg == -31) { SENTINEL("ass_bi31 degrade -31"); }
	SENTINEL("ass_bi31");
}

void h_C19_ass_bi63(void)
{
	IN(uint64_t, pos);
	IN(int64_t, neg);
	IN_RANGE(int, x, -63, 63);
	bitint63_t bi = {pos, neg};
	ASSUME(PRE_ass_bi63(bi, x));
	bitint63_t r = ass_bi63(bi, x);
	ASSERT(POST_ass_bi63(r, bi, x), "ass_bi63: view(ret) == view(bi) U {x}, well-formed");
	ASSERT(bi63_has_bits_p(r), "non-empty after insertion");
	if (SINGLE_BI(bi) && bi.neg == -63) { SENTINEL("ass_bi63 degrade -63"); }
	SENTINEL("ass_bi63");
}

/* ---------------------------------------------------------- iteration, one call */
void h_C19_bui31_next(void)
{
	IN(uint32_t, bi);
	IN_RANGE(size_t, c, 0, 64);
	ASSUME(WF_BUI31(bi) && CUR_OK_BUI31(c, bi));
	bitint_iter_t it = c;
	unsigned int x = bui31_next(&it, bi);
	ASSERT(POST_bui31_next(x, c, it, bi), "bui31_next: delivers the least undelivered member and a non-zero cursor past it, or cursor 0 when none is left");
	if (bi == 1U && c == 0U) { SENTINEL("bui31_next lone zero"); }
	if (!SINGLE_BUI(bi) && c == 31U) { SENTINEL("bui31_next end"); }
	SENTINEL("bui31_next");
}

void h_C19_bui63_next(void)
{
	IN(uint64_t, bi);
	IN_RANGE(size_t, c, 0, 128);
	ASSUME(WF_BUI63(bi) && CUR_OK_BUI63(c, bi));
	bitint_iter_t it = c;
	unsigned int x = bui63_next(&it, bi);
	ASSERT(POST_bui63_next(x, c, it, bi), "bui63_next: delivers the least undelivered member and a non-zero cursor past it, or cursor 0 when none is left");
	if (bi == 1U && c == 0U) { SENTINEL("bui63_next lone zero"); }
	SENTINEL("bui63_next");
}

void h_C19_bi31_next(void)
{
	IN(uint32_t, pos);
	IN(int32_t, neg);
	IN_RANGE(size_t, c, 0, 64);
	bitint31_t bi = {pos, neg};
	ASSUME(WF_BI31(bi) && !(!SINGLE_BI(bi) && (pos & 1U)) && CUR_OK_BI31(c, bi));
	bitint_iter_t it = c;
	int x = bi31_next(&it, bi);
	ASSERT(POST_bi31_next(x, c, it, bi), "bi31_next: delivers the first undelivered member (0, positives ascending, negatives by magnitude) and a non-zero cursor past it, or cursor 0 when none is left");
	if (!SINGLE_BI(bi) && pos == 0U && c == 0U && neg != 0) { SENTINEL("bi31_next negative-only"); }
	SENTINEL("bi31_next");
}

void h_C19_bi63_next(void)
{
	IN(uint64_t, pos);
	IN(int64_t, neg);
	IN_RANGE(size_t, c, 0, 128);
	bitint63_t bi = {pos, neg};
	ASSUME(WF_BI63(bi) && CUR_OK_BI63(c, bi));
	bitint_iter_t it = c;
	int x = bi63_next(&it, bi);
	ASSERT(POST_bi63_next(x, c, it, bi), "bi63_next: delivers the first undelivered member (0, positives ascending, negatives by magnitude) and a non-zero cursor past it, or cursor 0 when none is left");
	if (!SINGLE_BI(bi) && pos == 0U && c == 0U && neg != 0) { SENTINEL("bi63_next negative-only"); }
	SENTINEL("bi63_next");
}

/* ---------------------------------------------------------- iteration, whole
 * L-C19 machine-checked: from the iterator contract alone (the calls below
 * are REPLACED by the contracts the *_next obligations discharge) a loop in
 * the callers' protocol yields each member exactly once and then stops.
 * The loop carries an inductive invariant (no unwinding): what has been seen
 * is exactly the view minus what the cursor still denotes, and the cursor
 * grows with every delivery, which bounds the number of calls. */
#if !defined REPLAY
# define LOOP_CONTRACT(A, I, D)	__CPROVER_assigns A __CPROVER_loop_invariant(I) __CPROVER_decreases(D)
#else
# define LOOP_CONTRACT(A, I, D)
#endif
#define COLLECT_U(T, W, VT, VIEW, WF, REM, CUROK, ONE)				\
void h_C19_collect_##T(void)							\
{										\
	IN(VT, bi);								\
	ASSUME(WF(bi));								\
	bitint_iter_t it = 0U;							\
	VT seen = 0U;								\
	unsigned int n;								\
	for (n = 0U; n < W + 2U; n++)						\
	LOOP_CONTRACT((n, it, seen),						\
		n <= W + 2U && CUROK(it, bi) && (n == 0U ? it == 0U : it != 0U) &&	\
		(SINGLE_BUI(bi) ? n <= 1U : n <= it) &&				\
		seen == (VT)(VIEW(bi) & ~REM(it, bi)), W + 2U - n)		\
	{									\
		unsigned int x = T##_next(&it, bi);				\
		if (!it) {							\
			break;							\
		}								\
		ASSERT(x < W && !((seen >> x) & ONE), #T ": iteration never repeats a value"); \
		seen |= ONE << x;						\
	}									\
	ASSERT(it == 0U, #T ": iteration ends after at most |range|+1 calls");	\
	ASSERT(seen == VIEW(bi), #T ": the values delivered are exactly the members"); \
	if (bi == 1U) { SENTINEL(#T " collect lone zero"); }			\
	SENTINEL(#T " collect");						\
}
COLLECT_U(bui31, 31U, uint32_t, VU31, WF_BUI31, REM_BUI31, CUR_OK_BUI31, 1U)
COLLECT_U(bui63, 63U, uint64_t, VU63, WF_BUI63, REM_BUI63, CUR_OK_BUI63, 1ULL)

#define COLLECT_S(T, W, VT, ST, VP, VN, WF, REMZ, REMP, REMN, CUROK, ONE)	\
void h_C19_collect_##T(void)							\
{										\
	IN(VT, pos);								\
	IN(ST, neg);								\
	T##_t bi = {pos, neg};							\
	ASSUME(WF(bi) && (SINGLE_BI(bi) || !(pos & ONE)));			\
	bitint_iter_t it = 0U;							\
	VT seenp = 0U, seenn = 0U;						\
	unsigned int n;								\
	for (n = 0U; n < 2U * W + 4U; n++)					\
	LOOP_CONTRACT((n, it, seenp, seenn),					\
		n <= 2U * W + 4U && CUROK(it, bi) && (n == 0U ? it == 0U : it != 0U) && \
		(SINGLE_BI(bi) ? n <= 1U : n <= it) &&				\
		seenp == (VT)(VP(bi) & ~REMP(it, bi)) &&			\
		seenn == (VT)(VN(bi) & ~(REMN(it, bi) | (REMZ(it, bi) ? ONE : 0U))), 2U * W + 4U - n) \
	{									\
		int x = T##_next(&it, bi);					\
		if (!it) {							\
			break;							\
		}								\
		ASSERT(-(int)W <= x && x <= (int)W, #T ": delivered value in range"); \
		if (x > 0) {							\
			ASSERT(!((seenp >> x) & ONE), #T ": iteration never repeats a positive value"); \
			seenp |= ONE << x;					\
		} else {							\
			ASSERT(!((seenn >> -x) & ONE), #T ": iteration never repeats a non-positive value"); \
			seenn |= ONE << -x;					\
		}								\
	}									\
	ASSERT(it == 0U, #T ": iteration ends after at most |range|+1 calls");	\
	ASSERT(seenp == VP(bi) && seenn == VN(bi), #T ": the values delivered are exactly the members"); \
	if (!SINGLE_BI(bi) && pos == 0U && neg != 0) { SENTINEL(#T " collect negative-only"); } \
	SENTINEL(#T " collect");						\
}
typedef bitint31_t bi31_t;
typedef bitint63_t bi63_t;
COLLECT_S(bi31, 31U, uint32_t, int32_t, VP31, VN31, WF_BI31, REMZ_BI31, REMP_BI31, REMN_BI31, CUR_OK_BI31, 1U)
COLLECT_S(bi63, 63U, uint64_t, int64_t, VP63, VN63, WF_BI63, REMZ_BI63, REMP_BI63, REMN_BI63, CUR_OK_BI63, 1ULL)
