/* h_C20e.c -- the sort of events (event.c + wikisort.c): stability is
 * observable here because events with equal start differ in oid */
#include "h_common.h"
#include <string.h>
#include "event.h"
#if !defined REPLAY
/* CBMC's memcpy/memmove models with a symbolic length run out of memory even
 * on 3 elements; every call in wikisort.c copies whole elements, so the model
 * here copies element-wise (stated in the evidence as an assumption) */
static void *h_memcpy(void *restrict d, const void *restrict s, size_t n)
{
	echs_event_t *dp = d;
	const echs_event_t *sp = s;
	for (size_t i = 0; i < n / sizeof(*dp); i++) {
		dp[i] = sp[i];
	}
	return d;
}
static void *h_memmove(void *d, const void *s, size_t n)
{
	echs_event_t *dp = d;
	const echs_event_t *sp = s;
	const size_t k = n / sizeof(*dp);
	if (dp <= sp) {
		for (size_t i = 0; i < k; i++) {
			dp[i] = sp[i];
		}
	} else {
		for (size_t i = k; i > 0; i--) {
			dp[i - 1] = sp[i - 1];
		}
	}
	return d;
}
# define memcpy	h_memcpy
# define memmove	h_memmove
#endif	/* !REPLAY */
#include "event.c"

#if !defined SORT_N
# define SORT_N	6
#endif
void h_C20_sort_events(void)
{
	echs_event_t a[SORT_N];
	uint64_t key[SORT_N];
	const size_t n = SORT_N;	/* concrete length: keeps symex on the branch WikiSort takes for it */
	IN(uint64_t, k0); IN(uint64_t, k1); IN(uint64_t, k2); IN(uint64_t, k3); IN(uint64_t, k4); IN(uint64_t, k5);
#if SORT_N > 6
	IN(uint64_t, k6); IN(uint64_t, k7); IN(uint64_t, k8); IN(uint64_t, k9);
	uint64_t ks[] = {k0, k1, k2, k3, k4, k5, k6, k7, k8, k9};
#else
	uint64_t ks[] = {k0, k1, k2, k3, k4, k5};
#endif
	for (size_t i = 0; i < SORT_N; i++) {
		a[i] = (echs_event_t){.from = {.u = ks[i]}, .oid = (echs_oid_t)(i + 1U)};
		key[i] = ks[i];
	}
	echs_event_sort(a, n);
	unsigned seen = 0U;
	for (size_t i = 0; i < n; i++) {
		size_t tag = (size_t)a[i].oid - 1U;
		ASSERT(tag < n, "permutation: every element is one of the inputs");
		ASSERT(a[i].from.u == key[tag], "permutation: elements are moved whole (start stays with its event)");
		ASSERT(!((seen >> tag) & 1U), "permutation: no input appears twice");
		seen |= 1U << tag;
		if (i + 1 < n) {
			ASSERT(!echs_event_lt_p(a[i + 1], a[i]), "sorted: no event starts before its predecessor");
			if (!echs_event_lt_p(a[i], a[i + 1])) {
				ASSERT(a[i].oid < a[i + 1].oid, "stable: events that compare equal keep their original order");
			}
		}
	}
	if (k0 == k1 && k1 == k2) { SENTINEL("sort events ties"); }
	SENTINEL("sort events");
}

/* ---- the three merge routines of the sort, one call each (bounded stand-in) ----
 * array layout: [ pad | A | B | buffer ]; A and B are adjacent, each sorted;
 * the oid carries the input position so that stability is observable */
#if !defined MERGE_L
# define MERGE_L	3
#endif
#if !defined MERGE_CSZ
# define MERGE_CSZ	0
#endif
#define MERGE_N		(1 + 3 * MERGE_L)
static void
h_merge_setup(echs_event_t a[static MERGE_N], uint64_t key[static MERGE_N], size_t la, size_t lb)
{
	IN(uint64_t, k0); IN(uint64_t, k1); IN(uint64_t, k2); IN(uint64_t, k3); IN(uint64_t, k4);
	IN(uint64_t, k5); IN(uint64_t, k6); IN(uint64_t, k7); IN(uint64_t, k8); IN(uint64_t, k9);
	uint64_t ks[10] = {k0, k1, k2, k3, k4, k5, k6, k7, k8, k9};
	for (size_t i = 0; i < MERGE_N; i++) {
		a[i] = (echs_event_t){.from = {.u = ks[i]}, .oid = (echs_oid_t)(i + 1U)};
		key[i] = ks[i];
	}
	for (size_t i = 1; i + 1 < 1 + la; i++) {
		ASSUME(!echs_event_lt_p(a[i + 1], a[i]));
	}
	for (size_t i = 1 + la; i + 1 < 1 + la + lb; i++) {
		ASSUME(!echs_event_lt_p(a[i + 1], a[i]));
	}
}
static void
h_merge_check(const echs_event_t a[static MERGE_N], const uint64_t key[static MERGE_N], size_t lo, size_t hi, bool stable)
{
	unsigned seen = 0U;
	for (size_t i = lo; i < hi; i++) {
		size_t tag = (size_t)a[i].oid - 1U;
		ASSERT(lo <= tag && tag < hi, "merge: every element of the range is one of its inputs");
		ASSERT(a[i].from.u == key[tag], "merge: elements are moved whole");
		ASSERT(!((seen >> tag) & 1U), "merge: no input appears twice");
		seen |= 1U << tag;
		if (stable && i + 1 < hi) {
			ASSERT(!echs_event_lt_p(a[i + 1], a[i]), "merge: result is ordered");
			if (!echs_event_lt_p(a[i], a[i + 1])) {
				ASSERT(a[i].oid < a[i + 1].oid, "merge: equal elements keep their order (A before B, and inside each)");
			}
		}
	}
}
static void
h_merge_frame(const echs_event_t a[static MERGE_N], const uint64_t key[static MERGE_N], size_t lo, size_t hi)
{
	for (size_t i = 0; i < MERGE_N; i++) {
		if (i < lo || i >= hi) {
			ASSERT(a[i].oid == (echs_oid_t)(i + 1U) && a[i].from.u == key[i], "merge: nothing outside the two ranges moves");
		}
	}
}

void h_C20_merge_in_place(void)
{
	echs_event_t a[MERGE_N], cache[MERGE_L];
	uint64_t key[MERGE_N];
	IN_RANGE(size_t, la, 0, MERGE_L);
	IN_RANGE(size_t, lb, 0, MERGE_L);
	const size_t csz = MERGE_CSZ;	/* Rotate without (0) or with (MERGE_L) the cache: one run each */
	h_merge_setup(a, key, la, lb);
	MergeInPlace(a, Range_new(1, 1 + la), Range_new(1 + la, 1 + la + lb), cache, csz);
	h_merge_check(a, key, 1, 1 + la + lb, true);
	h_merge_frame(a, key, 1, 1 + la + lb);
	if (la == MERGE_L && lb == MERGE_L && a[1].oid != 2U) { SENTINEL("merge in place moved something"); }
	SENTINEL("merge in place");
}

void h_C20_merge_external(void)
{
	echs_event_t a[MERGE_N], cache[MERGE_L];
	uint64_t key[MERGE_N];
	IN_RANGE(size_t, la, 0, MERGE_L);
	IN_RANGE(size_t, lb, 0, MERGE_L);
	h_merge_setup(a, key, la, lb);
	/* the caller has copied A into the cache */
	for (size_t i = 0; i < MERGE_L; i++) {
		if (i < la) {
			cache[i] = a[1 + i];
		}
	}
	MergeExternal(a, Range_new(1, 1 + la), Range_new(1 + la, 1 + la + lb), cache, MERGE_L);
	h_merge_check(a, key, 1, 1 + la + lb, true);
	h_merge_frame(a, key, 1, 1 + la + lb);
	if (la == MERGE_L && lb == MERGE_L && a[1].oid != 2U) { SENTINEL("merge external moved something"); }
	SENTINEL("merge external");
}

void h_C20_merge_internal(void)
{
	echs_event_t a[MERGE_N];
	uint64_t key[MERGE_N];
	IN_RANGE(size_t, la, 0, MERGE_L);
	IN_RANGE(size_t, lb, 0, MERGE_L);
	const size_t bs = 1 + 2 * MERGE_L;	/* buffer at the end of the array */
	h_merge_setup(a, key, la, lb);
	/* the caller has swapped A into the buffer: A's slots hold the buffer's old content */
	for (size_t i = 0; i < MERGE_L; i++) {
		if (i < la) {
			echs_event_t t = a[1 + i];
			a[1 + i] = a[bs + i];
			a[bs + i] = t;
		}
	}
	MergeInternal(a, Range_new(1, 1 + la), Range_new(1 + la, 1 + la + lb), Range_new(bs, bs + la));
	/* the merged range holds exactly the inputs of A and B, ordered and stable */
	h_merge_check(a, key, 1, 1 + la + lb, true);
	/* the buffer holds its old content in some order */
	h_merge_check(a, key, bs, bs + la, false);
	for (size_t i = 0; i < MERGE_N; i++) {
		if (i < 1 || (i >= 1 + la + lb && i < bs) || i >= bs + la) {
			ASSERT(a[i].oid == (echs_oid_t)(i + 1U) && a[i].from.u == key[i], "merge: nothing outside the ranges and the buffer moves");
		}
	}
	SENTINEL("merge internal");
}
