/* h_C20e.c -- the sort of events (event.c + wikisort.c): stability is
 * observable here because events with equal start differ in oid */
#include "h_common.h"
#include "event.c"

#if !defined SORT_N
# define SORT_N	6
#endif
void h_C20_sort_events(void)
{
	echs_event_t a[SORT_N];
	uint64_t key[SORT_N];
	const size_t n = SORT_N;	/* concrete length: keeps symex on the branch WikiSort takes for it */
	IN(uint64_t, k0); IN(uint64_t, k1); IN(uint64_t, k2); IN(uint64_t, k3); IN(uint64_t, k4); IN(uint64_t, k5);
#if SORT_N > 6
	IN(uint64_t, k6); IN(uint64_t, k7); IN(uint64_t, k8); IN(uint64_t, k9);
	uint64_t ks[] = {k0, k1, k2, k3, k4, k5, k6, k7, k8, k9};
#else
	uint64_t ks[] = {k0, k1, k2, k3, k4, k5};
#endif
	for (size_t i = 0; i < SORT_N; i++) {
		a[i] = (echs_event_t){.from = {.u = ks[i]}, .oid = (echs_oid_t)(i + 1U)};
		key[i] = ks[i];
	}
	echs_event_sort(a, n);
	unsigned seen = 0U;
	for (size_t i = 0; i < n; i++) {
		size_t tag = (size_t)a[i].oid - 1U;
		ASSERT(tag < n, "permutation: every element is one of the inputs");
		ASSERT(a[i].from.u == key[tag], "permutation: elements are moved whole (start stays with its event)");
		ASSERT(!((seen >> tag) & 1U), "permutation: no input appears twice");
		seen |= 1U << tag;
		if (i + 1 < n) {
			ASSERT(!echs_event_lt_p(a[i + 1], a[i]), "sorted: no event starts before its predecessor");
			if (!echs_event_lt_p(a[i], a[i + 1])) {
				ASSERT(a[i].oid < a[i + 1].oid, "stable: events that compare equal keep their original order");
			}
		}
	}
	if (k0 == k1 && k1 == k2) { SENTINEL("sort events ties"); }
	SENTINEL("sort events");
}
