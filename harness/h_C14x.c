/* h_C14x.c -- echsx(): the hop from the limit in the execution request to the
 * alarm that kills the job (C14), and the --no-run refusal (C12).
 * The real echsx.c is read with main() renamed.  System calls are fixed-arity
 * stubs (macro redirects set up before echsx.c is read); prep_task / run_task /
 * mail_task / jlog_task / free_task are replaced by recording contracts
 * (DFCC), logging is pre-empted (variadic).  Observed: the value alarm() is
 * armed with and whether it is armed, with timeo_cb installed, before
 * run_task is entered. */
#include "h_common.h"
#include <stdlib.h>
#include <unistd.h>
#include <stdint.h>
#include <stdarg.h>
#include <string.h>
#include <stdio.h>
#include <errno.h>
#include <signal.h>
#include <time.h>
#include <fcntl.h>
#include <limits.h>
#include <spawn.h>
#include <sys/wait.h>
#include <sys/stat.h>
#include <sys/resource.h>
#include <sys/sendfile.h>
#include <pwd.h>
#include <grp.h>
#include <ev.h>
#include <assert.h>
#include <inttypes.h>
#include <syslog.h>
#include "instant.h"

/* ghost state */
static unsigned g_alarm_calls, g_alarm_val;
static unsigned g_handler_ok;		/* SIGALRM handler is timeo_cb at the time of alarm() */
static void(*g_alrm_handler)(int);
static unsigned g_prep, g_runs, g_alarm_calls_at_run, g_alarm_val_at_run, g_handler_at_run;
static unsigned g_mails, g_frees;
static time_t g_now, g_due;
static int g_time_fails;
static unsigned g_kill_calls;
static pid_t g_kill_pid;
static int g_kill_sig;

static int h_snprintf0(char *s, size_t n) { if (n) { s[0] = '\0'; } return 1; }
static unsigned h_alarm(unsigned s)
{
	g_alarm_calls++;
	g_alarm_val = s;
	g_handler_ok = g_alrm_handler != NULL;
	return 0U;
}
static time_t h_time(time_t *p)
{
	if (g_time_fails) {
		return (time_t)-1;
	}
	if (p != NULL) {
		*p = g_now;
	}
	return g_now;
}
static time_t h_to_epoch(echs_instant_t i) { (void)i; return g_due; }
static struct passwd g_pw;
static struct group g_gr;
static struct passwd *h_getpw(void) { return nondet_bool() ? &g_pw : NULL; }
static struct group *h_getgr(void) { return nondet_bool() ? &g_gr : NULL; }
static int h_rc(void) { return nondet_bool() ? 0 : -1; }
static mode_t h_umask(mode_t m) { (void)m; return 022; }
static int h_sigaction(int sig, const struct sigaction *sa)
{
	if (nondet_bool()) {
		return -1;
	}
	if (sig == SIGALRM) {
		g_alrm_handler = sa->sa_handler;
	}
	return 0;
}
static int h_kill(pid_t p, int sig) { g_kill_calls++; g_kill_pid = p; g_kill_sig = sig; return 0; }

#define snprintf(b, z, args...)	h_snprintf0(b, z)
#define alarm(x)	h_alarm(x)
#define time(p)		h_time(p)
#define echs_instant_to_epoch(i)	h_to_epoch(i)
#define getgrnam(x)	h_getgr()
#define getpwnam(x)	h_getpw()
#define getpwuid(x)	h_getpw()
#define setgid(g)	h_rc()
#define setuid(u)	h_rc()
#define umask(m)	h_umask(m)
#define sigaction(s, a, o)	h_sigaction(s, a)
#define sigprocmask(h, s, o)	(0)
#define sigemptyset(s)	((void)(s), 0)
#define sigaddset(s, n)	((void)(s), 0)
#define sigfillset(s)	((void)(s), 0)
#define kill(p, s)	h_kill(p, s)

/* logging pre-empted: variadic, irrelevant to the contract */
#define INCLUDED_logger_h_
#define ECHS_INFO_LOG(args...)	do {} while (0)
#define ECHS_ERR_LOG(args...)	do {} while (0)
#define ECHS_CRIT_LOG(args...)	do {} while (0)
#define ECHS_NOTI_LOG(args...)	do {} while (0)
#define ECHS_DEBUG(args...)
#define ECHS_DBGCONT(args...)
static inline void echs_openlog(void) {}
static inline void echs_closelog(void) {}
extern void(*echs_log)(int prio, const char *fmt, ...);
extern void echs_errlog(int prio, const char *fmt, ...);

#define main	echsx_main
#include "echsx.c"
#undef main

/* the phases of an execution by recording contracts */
static int prep_task(echsx_task_t t)
__CPROVER_assigns(g_prep)
__CPROVER_ensures(g_prep == __CPROVER_old(g_prep) + 1U)
__CPROVER_ensures(__CPROVER_return_value == 0 || __CPROVER_return_value == -1);
static int run_task(echsx_task_t t)
__CPROVER_assigns(g_runs, g_alarm_calls_at_run, g_alarm_val_at_run, g_handler_at_run)
__CPROVER_ensures(g_runs == __CPROVER_old(g_runs) + 1U && g_alarm_calls_at_run == g_alarm_calls &&
	g_alarm_val_at_run == g_alarm_val && g_handler_at_run == g_handler_ok)
__CPROVER_ensures(__CPROVER_return_value == 0 || __CPROVER_return_value == -1);
static int mail_task(echsx_task_t t)
__CPROVER_assigns(g_mails)
__CPROVER_ensures(g_mails == __CPROVER_old(g_mails) + 1U)
__CPROVER_ensures(__CPROVER_return_value == 0 || __CPROVER_return_value == -1);
static int jlog_task(echsx_task_t t)
__CPROVER_assigns()
__CPROVER_ensures(__CPROVER_return_value == 0 || __CPROVER_return_value == -1);
static void free_task(echsx_task_t t)
__CPROVER_assigns(g_frees)
__CPROVER_ensures(g_frees == __CPROVER_old(g_frees) + 1U);

void h_C14_echsx(void)
{
	static struct echs_task_s t;
	static const char cmd[] = "true";
	IN_RANGE(unsigned, typ, 0, 3);
	IN(int64_t, tmo);		/* DURATION in milliseconds as parsed from the request */
	IN(int64_t, now); IN(int64_t, due);
	IN_BOOL(norun); IN_BOOL(hascmd); IN_BOOL(timefails);
	IN_RANGE(unsigned, uid, 0, 70000);

	memset(&t, 0, sizeof(t));
	g_alarm_calls = g_alarm_val = g_handler_ok = 0U;
	g_alrm_handler = NULL;
	g_prep = g_runs = g_alarm_calls_at_run = g_alarm_val_at_run = g_handler_at_run = 0U;
	g_mails = g_frees = 0U;
	g_kill_calls = 0U;
	/* limits this obligation covers: a timeout of up to 2^32-1 seconds, epoch seconds of +-2^40 */
	ASSUME(-1000 <= tmo && tmo <= 4294967295000LL);
	ASSUME(-(1LL << 40) <= now && now <= (1LL << 40) && -(1LL << 40) <= due && due <= (1LL << 40));
	g_now = (time_t)now, g_due = (time_t)due, g_time_fails = timefails;
	t.cmd = hascmd ? cmd : NULL;
	t.run_as.u = nummapstr_bang_num(uid);
	t.run_as.g = nummapstr_bang_num(uid);
	t.vtod_typ = typ;
	if (typ == VTOD_TYP_TIMEOUT) {
		t.timeout.d = tmo;
	}
	argi->no_run_flag = norun;
	argi->vjournal_flag = 0;

	(void)echsx(&t);

	ASSERT(g_runs <= 1U && g_alarm_calls <= 1U, "the job is started at most once and the alarm armed at most once");
	if (norun) {
		ASSERT(g_runs == 0U, "--no-run: the job is never started");
	}
	if (!hascmd) {
		ASSERT(g_runs == 0U, "no command: nothing is started");
	}
	if (typ == VTOD_TYP_TIMEOUT) {
		if (tmo < 0) {
			ASSERT(g_runs == 0U, "negative timeout: refused, the job is not started");
		} else if (g_runs && tmo > 0) {
			ASSERT(g_alarm_calls_at_run == 1U || !g_handler_at_run, "DURATION: the alarm is armed before the job is started (unless the handler could not be installed)");
			if (g_alarm_calls_at_run) {
				ASSERT(g_handler_at_run, "the alarm is only armed with the kill handler installed");
				ASSERT((int64_t)g_alarm_val_at_run * 1000 >= tmo && ((int64_t)g_alarm_val_at_run - 1) * 1000 < tmo,
				       "DURATION: alarm seconds = the limit in milliseconds rounded up to whole seconds");
			}
		}
	} else if (typ == VTOD_TYP_DUE) {
		if (timefails || now >= due) {
			ASSERT(g_runs == 0U, "DUE: an overdue request (now >= due) or an unreadable clock is refused, the job is not started");
		} else if (g_runs && due - now <= 4294967295LL) {
			ASSERT(g_alarm_calls_at_run == 1U || !g_handler_at_run, "DUE: the alarm is armed before the job is started (unless the handler could not be installed)");
			if (g_alarm_calls_at_run) {
				ASSERT(g_handler_at_run, "the alarm is only armed with the kill handler installed");
				ASSERT((int64_t)g_alarm_val_at_run == due - now, "DUE: alarm seconds = due - now");
			}
		}
	} else {
		ASSERT(g_alarm_calls == 0U, "no limit in the request: no alarm");
	}
	ASSERT(g_frees == 1U || g_prep == 0U, "the task is released exactly once after it was prepared");
	if (g_runs && typ == VTOD_TYP_TIMEOUT && tmo == 1) { SENTINEL("echsx 1 ms limit"); }
	if (g_runs && typ == VTOD_TYP_DUE) { SENTINEL("echsx due ran"); }
	if (!g_runs && typ == VTOD_TYP_DUE && now == due) { SENTINEL("echsx due refused at the boundary"); }
	SENTINEL("echsx");
}

/* the alarm's handler sends SIGXCPU to the job */
void h_C14_timeo_cb(void)
{
	IN_RANGE(int, pid, 2, 4000000);
	g_kill_calls = 0U;
	chld = (pid_t)pid;
	timeo_cb(SIGALRM);
	ASSERT(g_kill_calls == 1U && g_kill_pid == (pid_t)pid && g_kill_sig == SIGXCPU, "the alarm handler sends SIGXCPU to the running job, once");
	SENTINEL("timeo_cb");
}
