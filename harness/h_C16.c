/* h_C16.c -- refill / next_evrrul of evical.c: what happens at the
 * 64-occurrence boundary.  The fillers (evrrul.c) and the zone/scale/sort
 * helpers live in other translation units and are represented by stubs:
 * a filler returns n <= min(asked, COUNT) occurrences (its contract, C09).
 * Obligation: the seed for the next refill is held back, not delivered twice
 * or lost, and COUNT goes down by exactly the number delivered. */
#include "h_common.h"
#include <string.h>
#include "evical.c"

#if !defined REPLAY
static size_t g_n;
static size_t g_w;		/* witness slot */
static uint64_t g_wval;		/* what the filler put there */
static size_t h_fill(echs_instant_t *restrict tgt, size_t nti, rrulsp_t rr)
{
	size_t n = nondet_size_t();
	__CPROVER_assume(n <= nti && (rr->count < 0 || n <= (size_t)rr->count));
	g_n = n;
	if (g_w < n) {
		/* some occurrence in wall-clock terms; bit 0 tells the zone stub whether
		 * its offset differs from the proto offset */
		tgt[g_w].u = g_wval;
	}
	return n;
}
size_t rrul_fill_yly(echs_instant_t *restrict tgt, size_t nti, rrulsp_t rr) { return h_fill(tgt, nti, rr); }
size_t rrul_fill_mly(echs_instant_t *restrict tgt, size_t nti, rrulsp_t rr) { return h_fill(tgt, nti, rr); }
size_t rrul_fill_wly(echs_instant_t *restrict tgt, size_t nti, rrulsp_t rr) { return h_fill(tgt, nti, rr); }
size_t rrul_fill_dly(echs_instant_t *restrict tgt, size_t nti, rrulsp_t rr) { return h_fill(tgt, nti, rr); }
size_t rrul_fill_Hly(echs_instant_t *restrict tgt, size_t nti, rrulsp_t rr) { return h_fill(tgt, nti, rr); }
size_t rrul_fill_Mly(echs_instant_t *restrict tgt, size_t nti, rrulsp_t rr) { return h_fill(tgt, nti, rr); }
size_t rrul_fill_Sly(echs_instant_t *restrict tgt, size_t nti, rrulsp_t rr) { return h_fill(tgt, nti, rr); }
echs_instant_t echs_instant_rescale(echs_instant_t i, echs_scale_t s) { (void)s; return i; }
/* zone stub: the proto offset is 0; instants with bit 0 set lie on the other side of a transition (+3600) */
int echs_tzob_offs(echs_tzob_t z, echs_instant_t i, int x) { (void)z; (void)x; return (i.u & 1ULL) ? 3600 : 0; }
/* echs_instant_add by a marking stub: shifting by (proto offset - own offset) = -3600 s sets bit 1 */
echs_instant_t echs_instant_add(echs_instant_t bas, echs_idiff_t add) { if (add.d == -3600000) { bas.u |= 2ULL; } else { bas.u |= 4ULL; } return bas; }
void echs_instant_sort(echs_instant_t *restrict in, size_t nin) { (void)in; (void)nin; }
#endif

static struct evrrul_s g_s;

void h_C16_refill(void)
{
	IN_RANGE(int, count, -1, 300);
	IN_RANGE(unsigned, freq, 1, 7);
	IN(uint64_t, from);
	IN_RANGE(size_t, w, 0, 63);
	IN(uint64_t, wval);
	ASSUME(from != 0ULL);
	ASSUME((wval & 6ULL) == 0ULL && wval != 0ULL);
	g_w = w, g_wval = wval;
	memset(&g_s, 0, sizeof(g_s));
	g_s.e.from.u = from;
	g_s.rrul.freq = (echs_freq_t)freq;
	g_s.rrul.count = count;
	g_s.rrul.inter = 1U;
	size_t r = refill(&g_s);
	if (count == 0) {
		ASSERT(r == 0U, "refill: a rule whose COUNT is used up yields nothing");
		SENTINEL("refill count zero");
	} else {
		size_t deliv = g_n >= 64U ? 63U : g_n;
		ASSERT(r == deliv && g_s.ncch == deliv, "refill: a full batch of 64 delivers 63 and holds the 64th back as the seed of the next refill; a shorter batch is delivered whole");
		if (g_n >= 64U) {
			ASSERT(g_s.e.from.u == g_s.cch[63].u && g_s.e.from.u != 0ULL, "refill: the held-back occurrence becomes the start of the next refill (neither lost nor delivered twice)");
			SENTINEL("refill full batch");
		} else {
			ASSERT(g_s.e.from.u == 0ULL, "refill: a short batch marks the end of the stream");
		}
		if (w < deliv) {
			ASSERT(g_s.cch[w].u == (wval | ((wval & 1ULL) ? 2ULL : 0ULL)), "refill: every delivered occurrence whose zone offset differs from the proto offset is corrected by exactly that difference, the others are left alone (witness slot)");
			if ((wval & 1ULL) && w + 1U == deliv) { SENTINEL("refill corrects the last delivered slot"); }
		}
		ASSERT(count < 0 ? g_s.rrul.count == count : g_s.rrul.count == count - (int)deliv, "refill: COUNT goes down by exactly the number of occurrences delivered");
		SENTINEL("refill batch");
	}
	SENTINEL("refill");
}

/* ---- send_evrrul: what is written for a task whose rules have been consumed
 * up to some point: DTSTART = the earliest occurrence not yet consumed over
 * the sibling rules, COUNT = what the rule still has to deliver. */
static echs_instant_t g_sent_from;
static size_t g_sent_ccnt;
static unsigned g_nsend_ev, g_nsend_rrul;
static void send_ev(int whither, echs_event_t e, echs_tzob_t z)
__CPROVER_assigns(g_sent_from, g_nsend_ev)
__CPROVER_ensures(g_sent_from.u == e.from.u && g_nsend_ev == __CPROVER_old(g_nsend_ev) + 1U);
static void send_rrul(int whither, rrulsp_t rr, size_t ccnt)
__CPROVER_assigns(g_sent_ccnt, g_nsend_rrul)
__CPROVER_ensures(g_sent_ccnt == ccnt && g_nsend_rrul == __CPROVER_old(g_nsend_rrul) + 1U);

static struct evrrul_s g_rules[2];

void h_C05_send_evrrul(void)
{
	IN_RANGE(size_t, rdi0, 0, 64); IN_RANGE(size_t, ncch0, 0, 63);
	IN_RANGE(size_t, rdi1, 0, 64); IN_RANGE(size_t, ncch1, 0, 63);
	IN(uint64_t, head0); IN(uint64_t, head1);	/* cch[rdi] of each rule */
	IN(uint64_t, seed0); IN(uint64_t, seed1);	/* held-back seed (or 0 at the end) */
	ASSUME(rdi0 <= ncch0 && rdi1 <= ncch1);
	ASSUME(head0 != 0ULL && head1 != 0ULL && head0 != ~0ULL && head1 != ~0ULL && seed0 != ~0ULL && seed1 != ~0ULL);
	/* refill holds back the LAST occurrence of a batch as the seed: it is not earlier than anything cached */
	ASSUME(seed0 == 0ULL || !echs_instant_lt_p((echs_instant_t){.u = seed0}, (echs_instant_t){.u = head0}));
	ASSUME(seed1 == 0ULL || !echs_instant_lt_p((echs_instant_t){.u = seed1}, (echs_instant_t){.u = head1}));
	memset(g_rules, 0, sizeof(g_rules));
	g_rules[0].seq = 0U, g_rules[0].ref = 2U;
	g_rules[1].seq = 1U, g_rules[1].ref = 2U;
	g_rules[0].rdi = rdi0, g_rules[0].ncch = ncch0, g_rules[0].e.from.u = seed0;
	g_rules[1].rdi = rdi1, g_rules[1].ncch = ncch1, g_rules[1].e.from.u = seed1;
	if (rdi0 < ncch0) { g_rules[0].cch[rdi0].u = head0; }
	if (rdi1 < ncch1) { g_rules[1].cch[rdi1].u = head1; }
	g_nsend_ev = g_nsend_rrul = 0U;
	send_evrrul(5, (echs_const_evstrm_t)&g_rules[0]);
	/* next unconsumed occurrence of each rule: the cache head, else the seed */
	echs_instant_t n0 = {.u = rdi0 < ncch0 ? head0 : seed0}, n1 = {.u = rdi1 < ncch1 ? head1 : seed1};
	ASSERT(g_nsend_ev == 1U && g_nsend_rrul == 1U, "the first rule of a task writes the event once and its rule once");
	ASSERT(g_sent_ccnt == ncch0 - rdi0, "COUNT is written as what the rule has left: its remaining count plus the cached occurrences not yet consumed");
	if (n0.u && n1.u) {
		echs_instant_t want = echs_instant_lt_p(n1, n0) ? n1 : n0;
		ASSERT(g_sent_from.u == want.u, "DTSTART is written as the earliest occurrence not yet consumed over all rules of the task");
		if (rdi0 != rdi1 && rdi1 < ncch1 && echs_instant_lt_p(n1, n0)) { SENTINEL("send_evrrul second rule is next"); }
	}
	SENTINEL("send_evrrul");
}

/* ---- instant_soup: an RDATE/EXDATE value that carries its own TZID is
 * converted to UTC with ITS zone, not with the zone of DTSTART */
#if !defined REPLAY
static echs_tzob_t g_utc_zone;
static unsigned g_utc_calls;
/* the UTC instant differs from the wall-clock one in bit 0, which is what the zone stub's offset depends on */
echs_instant_t echs_instant_utc(echs_instant_t i, echs_tzob_t z) { g_utc_zone = z; g_utc_calls++; i = echs_instant_detach_tzob(i); i.u ^= 1ULL; return i; }
echs_evstrm_t echs_evstrm_vmux(const echs_evstrm_t s[], size_t n) { return n ? s[0] : NULL; }
#endif
void h_C02_instant_soup(void)
{
	IN(uint64_t, water_u);
	IN(uint64_t, broth_u);
	IN(uint32_t, z);	/* zone of DTSTART */
	IN_RANGE(int, eof, -50400, 50400);
	echs_instant_t water = {.u = water_u}, broth = {.u = broth_u};
	ASSUME(!echs_instant_all_day_p(water));
	g_utc_calls = 0U;
	echs_instant_t r = instant_soup(broth, water, (echs_tzob_t)z, eof);
	echs_tzob_t own = echs_instant_tzob(water);
	if (own) {
		ASSERT(g_utc_calls == 1U && g_utc_zone == own, "a timed RDATE/EXDATE value with its own TZID is converted with that zone, whatever the zone of DTSTART");
		if (own != (echs_tzob_t)z) { SENTINEL("instant_soup other zone"); }
	} else {
		ASSERT(g_utc_calls == 0U && r.u == water.u, "a value without TZID is taken as it is (UTC)");
	}
	SENTINEL("instant_soup");
}

/* ---- __make_evrrul: the proto offset of a rule is the zone offset in force at
 * DTSTART's UTC instant (refill shifts every occurrence by own offset - proto offset) */
void h_C16_make_evrrul(void)
{
	IN(uint64_t, from);
	static struct rrulsp_s rr;
	echs_event_t e = {.from = {.u = from}};
	ASSUME(from != 0ULL && echs_instant_tzob(e.from) != 0U && !echs_instant_all_day_p(e.from));
	memset(&rr, 0, sizeof(rr));
	rr.freq = FREQ_DAILY, rr.count = -1, rr.inter = 1U;
	struct evrrul_s *this = (struct evrrul_s*)__make_evrrul(e, &rr, 1U);
	if (this != NULL) {
		echs_instant_t utc = echs_instant_detach_tzob(e.from);
		utc.u ^= 1ULL;
		ASSERT(this->e.from.u == utc.u, "a rule's proto event is DTSTART converted to UTC");
		ASSERT(this->pof == ((utc.u & 1ULL) ? 3600 : 0), "a rule's proto offset is the zone offset in force at DTSTART's UTC instant (not at its wall-clock reading taken as UTC)");
		ASSERT(this->zon == echs_instant_tzob(e.from), "the rule keeps DTSTART's zone");
		SENTINEL("make_evrrul made");
	}
	SENTINEL("make_evrrul");
}
