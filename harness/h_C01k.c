/* h_C01k.c -- calendar kernels of evrrul.c against spec_cal.h (C01, C17);
 * the real translation unit is included, every function below is static there */
#include "h_common.h"
#include "spec_view.h"
#include <string.h>
#include "evrrul.c"
#if !defined REPLAY
/* the +-383 container (other translation unit), needed by shift() */
# include "bitint.c"
#endif

#define IN_DATE()						\
	IN_RANGE(unsigned, y, 1901, 2099);			\
	IN_RANGE(unsigned, m, 1, 12);				\
	IN_RANGE(unsigned, d, 1, 31);				\
	ASSUME(S_VALID_DATE(y, m, d))

void h_C01_k_wday(void)
{
	IN_DATE();
	IN_RANGE(unsigned, yd, 1, 366);
	ASSERT((int)ymd_get_wday(y, m, d) == S_WDAY(y, m, d), "ymd_get_wday == weekday (Mon=1..Sun=7)");
	ASSERT((int)get_jan01_wday(y) == S_WDAY(y, 1, 1), "get_jan01_wday (28-year table) == weekday of Jan 1st");
	ASSERT((int)ymd_get_yd(y, m, d) == S_YDAY(y, m, d), "ymd_get_yd == ordinal day of the year");
	ASSERT((int)__get_ndom(y, m) == S_MDAYS(y, m), "__get_ndom == month length");
	if ((int)yd <= S_YDAYS(y)) {
		ASSERT((int)yd_get_wday(y, yd) == S_WDAY_OF_DAYNO(S_DAYNO(y, 1, 1) + (int)yd - 1), "yd_get_wday == weekday of the yd-th day of the year");
	}
	ASSERT((int)get_isowk(y) == S_ISOWEEKS(y), "get_isowk == number of ISO 8601 weeks of the year");
	ASSERT((int)inc_wd((echs_wday_t)S_WDAY(y, m, d)) == S_WDAY(y, m, d) % 7 + 1, "inc_wd cycles Mon..Sun");
	SENTINEL("k wday");
}

/* n-th weekday of a month, positive and negative ordinals */
void h_C01_k_ymcw(void)
{
	IN_RANGE(unsigned, y, 1901, 2099);
	IN_RANGE(unsigned, m, 1, 12);
	IN_RANGE(int, c, -5, 5);
	IN_RANGE(unsigned, w, 1, 7);
	ASSUME(c != 0);
	int nd = S_MDAYS(y, m);
	int first = 1 + ((int)w - S_WDAY(y, m, 1) + 7) % 7;	/* first w-day of the month */
	int cnt = (nd - first) / 7 + 1;				/* how many there are */
	ASSERT(__get_mcnt(y, m, (echs_wday_t)w) == cnt, "__get_mcnt == number of w-days in the month");
	unsigned r = ymcw_get_dom(y, m, c, (echs_wday_t)w);
	int want = c > 0 ? (c <= cnt ? first + 7 * (c - 1) : 0) : (-c <= cnt ? first + 7 * (cnt + c) : 0);
	ASSERT((int)r == want, "ymcw_get_dom == day of the c-th (c<0: |c|-th last) w-day of the month, 0 if there is none");
	if (c == 5 && want) { SENTINEL("k ymcw fifth"); }
	if (c == -5 && !want) { SENTINEL("k ymcw no minus fifth"); }
	if (m == 2U && want == 29) { SENTINEL("k ymcw leap day"); }
	SENTINEL("k ymcw");
}

/* n-th weekday of a year */
void h_C01_k_ycw(void)
{
	IN_RANGE(unsigned, y, 1901, 2099);
	IN_RANGE(int, c, -53, 53);
	IN_RANGE(unsigned, w, 1, 7);
	ASSUME(c != 0);
	int ny = S_YDAYS(y);
	int first = 1 + ((int)w - S_WDAY(y, 1, 1) + 7) % 7;
	int cnt = (ny - first) / 7 + 1;
	unsigned r = ycw_get_yday(y, c, (echs_wday_t)w);
	if (c > 0 && c <= cnt) {
		ASSERT((int)r == first + 7 * (c - 1), "ycw_get_yday == yday of the c-th w-day of the year");
		SENTINEL("k ycw positive");
	} else if (c < 0 && -c <= cnt) {
		ASSERT((int)r == first + 7 * (cnt + c), "ycw_get_yday == yday of the |c|-th last w-day of the year");
		if (cnt == 53) { SENTINEL("k ycw 53 weekdays"); }
		SENTINEL("k ycw negative");
	} else {
		ASSERT(r == 0U, "ycw_get_yday: a year without a 53rd (-53rd) such weekday has no such day (0)");
		SENTINEL("k ycw no such weekday");
	}
	SENTINEL("k ycw");
}

/* ISO 8601 weeks: yday of (week, weekday), also reaching into neighbouring years */
void h_C01_k_ywd(void)
{
	IN_RANGE(unsigned, y, 1902, 2098);
	IN_RANGE(int, wk, -53, 53);
	IN_RANGE(unsigned, wd, 1, 7);
	ASSUME(wk != 0 && wk <= S_ISOWEEKS(y) && -wk <= S_ISOWEEKS(y));
	int w = wk > 0 ? wk : S_ISOWEEKS(y) + 1 + wk;
	int want = S_W1MON(y) + 7 * (w - 1) + ((int)wd - 1);	/* may be <= 0 or > days of the year */
#if defined REGION_YWD_BEFORE_DEC31
	/* region of known finding KF-C01-ywd-prev-december */
	ASSUME(want < 0);
#else
	ASSUME(want >= 0);
#endif
	ASSERT((int)ywd_get_yday(y, wk, (int)wd) == want, "ywd_get_yday == day of the year of ISO (week, weekday), weeks counted from the end for negative numbers");
	struct md_s md = ywd_to_md(y, wk, (echs_wday_t)wd);
	if (want >= 1 && want <= S_YDAYS(y)) {
		ASSERT(1U <= md.m && md.m <= 12U && S_YDAY(y, md.m, md.d) == want, "ywd_to_md == month/day of that day of the year");
		ASSERT(S_WDAY(y, md.m, md.d) == (int)wd, "the date of ISO (week, weekday) falls on that weekday");
		SENTINEL("k ywd inside");
	} else if (want < 1) {
		ASSERT(md.m == 12U && (int)md.d == 31 + want, "ywd_to_md: days of week 1 before Jan 1st are the last days of December");
		SENTINEL("k ywd previous year");
	} else {
		ASSERT(md.m == 1U && (int)md.d == want - S_YDAYS(y), "ywd_to_md: days of the last week after Dec 31st are the first days of January");
		SENTINEL("k ywd next year");
	}
	SENTINEL("k ywd");
}

/* day of the year -> month/day, positive and negative */
void h_C01_k_yd_to_md(void)
{
	IN_DATE();
	int yd = S_YDAY(y, m, d);
	struct md_s a = yd_to_md(y, yd);
	ASSERT(a.m == m && a.d == d, "yd_to_md inverts the ordinal day of the year");
	struct md_s b = yd_to_md(y, yd - S_YDAYS(y) - 1);
	ASSERT(b.m == m && b.d == d, "yd_to_md with a negative ordinal counts from the end of the year (-1 = Dec 31st)");
	struct md_s md = {m, d};
	struct md_s nx = inc_md(md, y);
	if (m < 12U || d < 31U) {
		ASSERT(S_YDAY(y, nx.m, nx.d) == yd + 1 && (int)nx.d <= S_MDAYS(y, nx.m), "inc_md is the next day of the year");
	}
	struct md_s u = unpack_cand(pack_cand(m, d));
	ASSERT(u.m == m && u.d == d, "unpack_cand(pack_cand(m,d)) == (m,d)");
	ASSERT(pack_cand(m, d) <= 383U && pack_cand(m, d) >= 1U, "packed candidates fit the +-383 container");
	SENTINEL("k yd_to_md");
}

/* Easter: anonymous Gregorian computus (Meeus/Jones/Butcher) */
void h_C17_easter(void)
{
	IN_RANGE(unsigned, y, 1901, 2099);
	ASSERT((int)easter_get_yday(y) == S_YDAY(y, S_EASTER_M(y), S_EASTER_D(y)), "easter_get_yday == day of the year of Easter Sunday (anonymous Gregorian computus)");
	ASSERT(S_WDAY(y, S_EASTER_M(y), S_EASTER_D(y)) == 7, "Easter is a Sunday");
	SENTINEL("easter");
}

/* SHIFT=N (calendar days) on a single candidate: the result is the date N
 * days later (earlier), filed under the year it falls in (bucket 0 = same
 * year, 1 = previous, 2 = next).  The candidate loops treat every member on
 * its own, so the singleton case carries the general one. */
void h_C17_shift_days(void)
{
	IN_RANGE(unsigned, y, 1902, 2098);
	IN_RANGE(unsigned, m, 1, 12);
	IN_RANGE(unsigned, d, 1, 31);
#if !defined SHIFT_NMAX
# define SHIFT_NMAX	62
#endif
	IN_RANGE(int, n, -SHIFT_NMAX, SHIFT_NMAX);
	ASSUME(S_VALID_DATE(y, m, d) && n != 0);
	static bitint383_t cand[3];
	memset(cand, 0, sizeof(cand));
	ass_bi383(&cand[0], (int)pack_cand(m, d));
	shift(cand, y, (echs_shift_t)(n * 65536));
	/* exactly one candidate comes out */
	unsigned c0 = CNT_383(&cand[0]), c1 = CNT_383(&cand[1]), c2 = CNT_383(&cand[2]);
	ASSERT(!BS_383(&cand[0]) && !BS_383(&cand[1]) && !BS_383(&cand[2]) && c0 + c1 + c2 == 1U, "SHIFT=N: one date in, one date out");
	unsigned b = c0 ? 0U : c1 ? 1U : 2U;
	struct md_s r = unpack_cand((unsigned)cand[b].neg[0]);
	unsigned ry = b == 0U ? y : b == 1U ? y - 1U : y + 1U;
	ASSERT(S_VALID_DATE(ry, r.m, r.d), "SHIFT=N: the shifted date is a real date of the year it is filed under");
	ASSERT(S_DAYNO(ry, r.m, r.d) == S_DAYNO(y, m, d) + n, "SHIFT=N moves the date by exactly N calendar days");
	if (b == 2U && S_LEAP(y) != S_LEAP(y + 1U) && r.m >= 3U) { SENTINEL("shift across next year's February"); }
	if (b == 1U) { SENTINEL("shift into the previous year"); }
	SENTINEL("shift days");
}

/* MONTHLY;INTERVAL=n;BYMONTH=v: the reachability test of rrul_fill_mly.
 * gcd12 is the real function; the test expression is the one line of the
 * filler that uses it (quoted here, the filler's main loop is not under
 * contract).  Lemma: the test passes iff month v is reached from month m in
 * steps of INTERVAL months (within 12 steps, the cycle length). */
void h_C09_gcd12(void)
{
	IN_RANGE(unsigned, m, 1, 12);
	IN_RANGE(unsigned, v, 1, 12);
	IN_RANGE(unsigned, inter, 1, 0x7fffffffU);
	const unsigned g = gcd12(inter);
	ASSERT(g == 1U || g == 2U || g == 3U || g == 4U || g == 6U || g == 12U, "gcd12 returns a divisor of 12");
	ASSERT(inter % g == 0U, "gcd12(n) divides n");
	const bool test = ((m + 12U) - v) % g == 0U;	/* evrrul.c: ((m + 12U) - (bm - 1U)) % gcd12(rr->inter), bm - 1 = v */
	bool reach = false;
	unsigned cur = m;
	for (unsigned k = 0U; k < 12U; k++) {
		reach = reach || cur == v;
		cur = (cur - 1U + inter % 12U) % 12U + 1U;
	}
	ASSERT(test == reach, "the BYMONTH month passes the test iff stepping by INTERVAL months from the start month reaches it");
	if (inter == 24U && m == v) { SENTINEL("gcd12 interval 24"); }
	if (!reach) { SENTINEL("gcd12 unreachable month"); }
	SENTINEL("gcd12");
}
