/* h_C08_epoch.c -- epoch conversions of tzob.c (real translation unit included) */
#include "h_common.h"
#include "contracts_instant.h"
long verif_epoch_nd;
unsigned int verif_epoch_d, verif_epoch_s;
#include "tzob.c"

/* seconds since 1970-01-01T00:00:00Z of a valid timed / all-sec instant, the
 * calendar's answer: forward multiply-accumulate only */
#define SPEC_EPOCH(i)	((int64_t)S_UNIXDAY((i).y, (i).m, (i).d) * 86400 + (int64_t)I_SOD(i))

void h_C08_to_epoch(void)
{
	IN_INSTANT_FIELDS(i);
	ASSUME(I_VALID(i) && !I_ALLDAY(i));
#if defined REGION
	ASSUME(REGION);
#endif
	time_t t = echs_instant_to_epoch(i);
#if !defined REPLAY
	/* pair form first (narrow), then the value as one number (structural) */
	ASSERT(verif_epoch_nd == (long)S_UNIXDAY(i.y, i.m, i.d), "instant -> unix time: day count == days since 1970-01-01");
	ASSERT((int64_t)t == ((verif_epoch_nd * 24 + (int64_t)i.H) * 60 + (int64_t)i.M) * 60 + (int64_t)i.S,
	       "instant -> unix time: value == ((days*24+H)*60+M)*60+S in 64 bits");
#else
	ASSERT((int64_t)t == SPEC_EPOCH(i), "instant -> unix time == (days since 1970-01-01)*86400 + second of day");
#endif
	if (i.m <= 2U) {
		SENTINEL("to_epoch Jan/Feb");
	}
	if (i.y < 1970U) {
		SENTINEL("to_epoch before 1970");
	}
	if (i.y > 2038U) {
		SENTINEL("to_epoch after 2038");
	}
	SENTINEL("to_epoch");
}

/* unix time -> instant.  Pair form (R1): (d, s) = floor quotient and remainder
 * of t by 86400 as computed by the code (ghost export); that
 * t == (d - base)*86400 + s is C's division identity (trusted, wide division).
 * From there on everything is narrow and proved for every second 1901..2099. */
#define EPOCH_MIN	((int64_t)S_UNIXDAY(1901, 1, 1) * 86400)
#define EPOCH_MAX	((int64_t)S_UNIXDAY(2099, 12, 31) * 86400 + 86399)
void h_C08_from_epoch(void)
{
	IN_RANGE(int64_t, t, EPOCH_MIN, EPOCH_MAX);
	echs_instant_t r = epoch_to_echs_instant((time_t)t);
	/* the code's own day base: days from its day 0 to 1970-01-01 */
	ASSERT(verif_epoch_s < 86400U, "unix time -> instant: second of day in 0..86399 (floor convention, also before 1970)");
	ASSERT((t >= 0) == ((int)verif_epoch_d >= (int)DAISY_UNIX_BASE), "unix time -> instant: day count on the right side of 1970");
	ASSERT(I_VALID(r) && I_ALLSEC(r) && !I_ALLDAY(r), "unix time -> instant: a valid instant of whole-second resolution");
	ASSERT(S_UNIXDAY(r.y, r.m, r.d) == (int)verif_epoch_d - (int)DAISY_UNIX_BASE, "unix time -> instant: date == day count since 1970-01-01");
	ASSERT(I_SOD(r) == (int)verif_epoch_s, "unix time -> instant: time of day == second of day");
	if (t < 0) {
		SENTINEL("from_epoch before 1970");
	}
	if (r.m == 2U && r.d == 29U) {
		SENTINEL("from_epoch leap day");
	}
	SENTINEL("from_epoch");
}

/* strata (bounded stand-ins for the division identity): the full round trip
 * without the trusted identity, t = midnight + s for every day, s in a small set */
#if !defined STRATUM_YLO
# define STRATUM_YLO	1969U
# define STRATUM_YHI	1971U
#endif
void h_C08_epoch_roundtrip_stratum(void)
{
	IN_INSTANT_FIELDS(i);
	ASSUME(I_VALID(i) && I_ALLSEC(i) && !I_ALLDAY(i));
	ASSUME(i.y >= STRATUM_YLO && i.y <= STRATUM_YHI);
	time_t t = echs_instant_to_epoch(i);
	echs_instant_t r = epoch_to_echs_instant(t);
	ASSERT(r.u == i.u, "instant -> unix time -> instant is the identity");
	SENTINEL("epoch roundtrip");
}

/* ---- the cache of open zone files (__tzob_zif): whatever was looked up
 * before, the zone file returned for a zone is THAT zone's file */
#if !defined REPLAY
/* zone files are told apart by an id: the stub's zif for zone name "zN" is &g_zif[N] */
static int g_zif[8];
static unsigned g_opened, g_closed;
static unsigned g_zone_asked;	/* set by the echs_zone contract: which zone's name was handed out last */
zif_t zif_open(const char *fn) { (void)fn; g_opened++; return (zif_t)&g_zif[g_zone_asked & 7U]; }
void zif_close(zif_t z) { (void)z; g_closed++; }
#endif

/* zone names by contract: the three zone objects used below are 0x40, 0x80,
 * 0xc0 (make_tzob(1..3)); interning itself (hash, string area) is C05.make_obint's business */
static const char g_nm[4][3] = {"z0", "z1", "z2", "z3"};
const char *echs_zone(echs_tzob_t z)
__CPROVER_assigns(g_zone_asked)
__CPROVER_ensures(__CPROVER_return_value == g_nm[(z >> 6U) & 3U] && g_zone_asked == ((z >> 6U) & 3U));

void h_C07_tzob_zif(void)
{
	IN_RANGE(unsigned, q0, 1, 3); IN_RANGE(unsigned, q1, 1, 3); IN_RANGE(unsigned, q2, 1, 3); IN_RANGE(unsigned, q3, 1, 3);
	const echs_tzob_t zo[4] = {0U, 0x40U, 0x80U, 0xc0U};
	memset(tmfu, 0, sizeof(tmfu));
	memset(zmfu, 0, sizeof(zmfu));
	g_opened = g_closed = 0U;
	(void)__tzob_zif(zo[q0]);
	(void)__tzob_zif(zo[q1]);
	(void)__tzob_zif(zo[q2]);
	zif_t z = __tzob_zif(zo[q3]);
	ASSERT(z != NULL, "a zone file is returned");
	ASSERT(z == (zif_t)&g_zif[1] || z == (zif_t)&g_zif[2] || z == (zif_t)&g_zif[3], "the file returned is one of the zone files opened");
	ASSERT(z == (zif_t)&g_zif[q3], "the zone file used for a zone is that zone's own file, whatever was looked up before");
	if (q0 == 1U && q1 == 2U && q2 == 2U) { SENTINEL("tzob_zif use count overtakes"); }
	SENTINEL("tzob_zif");
}
