/* h_C08.c -- obligations on instant.c (the real translation unit is included) */
#include "h_common.h"
#define CONTRACT_DECLS_instant
#include "contracts_instant.h"
int verif_diff_days, verif_diff_ms;
int verif_add_dd0, verif_add_msd0, verif_add_dd;
#include "instant.c"

/* the spec's own sanity: leap rule and day numbering (supporting lemma) */
void h_C08_spec(void)
{
	IN_RANGE(int, y, 1901, 2099);
	IN_RANGE(int, m, 1, 12);
	IN_RANGE(int, d, 1, 31);
	ASSUME(S_VALID_DATE(y, m, d));
	ASSERT(S_LEAP(y) == S_LEAPG(y), "y%4 rule equals the Gregorian rule on 1901..2099");
	/* successor day has the successor number */
	int y2 = y, m2 = m, d2 = d + 1;
	if (d2 > S_MDAYS(y, m)) {
		d2 = 1;
		if (++m2 > 12) {
			m2 = 1, y2++;
		}
	}
	if (y2 <= 2099) {
		ASSERT(S_DAYNO(y2, m2, d2) == S_DAYNO(y, m, d) + 1, "consecutive days have consecutive day numbers");
		ASSERT(S_WDAY(y2, m2, d2) == S_WDAY(y, m, d) % 7 + 1, "weekday cycles Mon..Sun");
	}
	ASSERT(S_DAYNO(1970, 1, 1) == S_DAYNO_1970, "epoch day");
	ASSERT(S_WDAY(1970, 1, 1) == 4, "1970-01-01 is a Thursday");
	ASSERT(S_WDAY(2000, 1, 1) == 6, "2000-01-01 is a Saturday");
	ASSERT(S_YDAY(y, m, d) >= 1 && S_YDAY(y, m, d) <= S_YDAYS(y), "yday range");
	SENTINEL("spec");
}

/* lexicographic date order == day number order (lemma used by I_LT) */
void h_C08_spec_order(void)
{
	IN_RANGE(int, y, 1901, 2099);
	IN_RANGE(int, m, 1, 12);
	IN_RANGE(int, d, 1, 31);
	IN_RANGE(int, y2, 1901, 2099);
	IN_RANGE(int, m2, 1, 12);
	IN_RANGE(int, d2, 1, 31);
	ASSUME(S_VALID_DATE(y, m, d) && S_VALID_DATE(y2, m2, d2));
	bool lex = y < y2 || (y == y2 && (m < m2 || (m == m2 && d < d2)));
	/* split by year distance so that no multiplication is compared wide */
	if (y == y2) {
		ASSERT(lex == (S_YDAY(y, m, d) < S_YDAY(y2, m2, d2)), "same year: lexicographic == day-of-year order");
	} else if (y < y2) {
		ASSERT(S_DAYNO(y, m, d) <= S_DAYNO(y, 12, 31), "a date is not after Dec 31 of its year");
		ASSERT(S_DAYNO(y + 1, 1, 1) == S_DAYNO(y, 12, 31) + 1, "Jan 1 follows Dec 31");
		ASSERT(S_DAYNO(y2, 1, 1) <= S_DAYNO(y2, m2, d2), "a date is not before Jan 1 of its year");
	}
	ASSERT(lex == (S_DAYNO(y, m, d) < S_DAYNO(y2, m2, d2)), "lexicographic date order == day number order");
	SENTINEL("spec order");
}

/* Horner form on digit differences == difference of the ms-of-day values */
void h_C08_spec_horner(void)
{
	IN_INSTANT_FIELDS(a);
	IN_INSTANT_FIELDS(b);
	ASSUME(I_VALID(a) && I_VALID(b) && I_TIMED(a) && I_TIMED(b));
	ASSERT(SPEC_sod_diff(a, b) == I_SOD(a) - I_SOD(b), "Horner difference == difference of seconds of day");
	ASSERT(SPEC_diff_ms0(a, b) == I_MSOD(a) - I_MSOD(b), "Horner difference == difference of ms of day");
	SENTINEL("spec horner");
}

/* the static day-number kernels against their contracts */
void h_C08_kernels(void)
{
	IN_RANGE(unsigned, y, 1901, 2099);
	IN_RANGE(unsigned, m, 1, 12);
	IN_RANGE(unsigned, d, 1, 31);
	ASSUME(S_VALID_DATE(y, m, d));
	echs_instant_t i = {.y = y, .m = m, .d = d};
	ASSERT(POST_jan00(__jan00(y), y), "__jan00(y) == day number of y-01-00 (offset 1601 epoch)");
	ASSERT(POST_doy(__doy(i), i), "__doy(i) == ordinal day of the year");
	ASSERT(POST_get_mdays(__get_mdays(y, m), y, m), "__get_mdays(y,m) == month length");
	ASSERT((int)__get_mdays(y, m) == S_MDAYS(y, m), "month length (spec macro)");
	SENTINEL("kernels");
}

/* echs_instant_diff == true elapsed time, all pairs of valid instants */
void h_C08_diff(void)
{
	IN_INSTANT_FIELDS(end);
	IN_INSTANT_FIELDS(beg);
	ASSUME(PRE_diff(end, beg));
#if defined REGION_OK
	/* (no carve-out at present) */
#endif
	echs_idiff_t r = echs_instant_diff(end, beg);
	/* the elapsed time in pair form (whole days, 0 <= ms < 86400000) ... */
#if !defined REPLAY
	ASSERT(verif_diff_days == SPEC_diff_days(end, beg), "diff: whole days == day-number difference (floor convention)");
	ASSERT(verif_diff_ms == SPEC_diff_ms(end, beg), "diff: ms within the day == ms-of-day difference mod one day");
	/* ... and its value as one number */
	ASSERT(r.d == (int64_t)verif_diff_days * (int64_t)S_MS_PER_DAY + (int64_t)verif_diff_ms,
	       "diff: result == days*86400000 + ms evaluated in 64 bits");
#else
	ASSERT(POST_diff(r, end, beg), "diff(end,beg) == (dayno(end)-dayno(beg))*86400000 + (msod(end)-msod(beg))");
#endif
	if (I_LT(beg, end)) {
		ASSERT(r.d > 0, "later minus earlier is positive");
		SENTINEL("diff positive");
	}
	if (I_LT(end, beg)) {
		ASSERT(r.d < 0, "earlier minus later is negative");
		SENTINEL("diff negative");
	}
	if (I_DAYNO(end) - I_DAYNO(beg) > 50) {
		SENTINEL("diff more than 50 days");
	}
	SENTINEL("diff");
}

void h_C08_fixup_timed(void)
{
	IN_RAW_INSTANT(e);
	ASSUME(PRE_fixup_timed(e));
	echs_instant_t r = echs_instant_fixup(e);
	ASSERT(POST_fixup_timed(r, e), "fixup: valid instant denoting the same time point (carry form)");
	if (I_VALID(e)) {
		ASSERT(r.u == e.u, "fixup is the identity on valid instants");
		SENTINEL("fixup valid");
	}
	if (e.d > 31U && e.m == 12U && e.H > 23U) {
		SENTINEL("fixup overflow into next year");
	}
	SENTINEL("fixup timed");
}

void h_C08_fixup_allday(void)
{
	IN_RAW_INSTANT(e);
	ASSUME(PRE_fixup_allday(e));
	echs_instant_t r = echs_instant_fixup(e);
	ASSERT(POST_fixup_allday(r, e), "fixup(all-day): valid date with the same day number, time fields untouched");
	if (e.d > 31U) {
		SENTINEL("fixup allday overflow");
	}
	SENTINEL("fixup allday");
}

/* all-sec instants: ms stays 0x3ff, seconds and up are normalised */
void h_C08_fixup_allsec(void)
{
	IN_RAW_INSTANT(e);
	ASSUME(PRE_fixup_allsec(e));
	echs_instant_t r = echs_instant_fixup(e);
	ASSERT(POST_fixup_allsec(r, e), "fixup(all-sec): valid all-sec instant of the same second (carry form)");
	if (e.S > 59U && e.d > 31U) {
		SENTINEL("fixup allsec overflow");
	}
	SENTINEL("fixup allsec");
}

/* ordering: echs_instant_lt_p/le_p agree with the chronological order of
 * the property (all-day before timed of the same day) on valid instants */
void h_C08_order(void)
{
	IN_INSTANT_FIELDS(a);
	IN_INSTANT_FIELDS(b);
	ASSUME(I_VALID(a) && I_VALID(b));
	bool lt = echs_instant_lt_p(a, b);
	bool le = echs_instant_le_p(a, b);
	ASSERT(lt == I_LT(a, b), "lt_p == chronological order (day, all-day first, time of day)");
	ASSERT(le == !I_LT(b, a), "le_p == not later");
	ASSERT(lt == (IKEY(a) < IKEY(b)), "IKEY macro (used in loop invariants) is lt_p");
	if (I_ALLDAY(a) && !I_ALLDAY(b) && I_DAYNO(a) == I_DAYNO(b)) {
		ASSERT(lt, "all-day sorts before every timed value of its day");
		SENTINEL("order allday");
	}
	SENTINEL("order");
}

/* ------------------------------------------------------------------ add
 * Pair form (R1): with (dd0, msd0) the quotient and remainder of add.d by one
 * day AS COMPUTED by the code (ghost export; that add.d == dd0*86400000+msd0
 * is C's division identity, which no installed back end can exploit), the
 * result denotes the time point (dayno(bas)+dd0, msod(bas)+msd0), carried
 * into range.  All valid bases, all durations of +-80000 days. */
#define ADD_LIM	(80000LL * 86400000LL)
/* day number under the every-4th-year rule: equals the Gregorian day number
 * on 1901..2099 (C08.spec) and is what the month walk is inductive over */
void h_C08_add_walk(void)
{
	IN_INSTANT_FIELDS(bas);
	IN_RANGE(int64_t, dur, -ADD_LIM, ADD_LIM);
	ASSUME(I_VALID(bas));
	echs_idiff_t add = {dur};
	echs_instant_t r = echs_instant_add(bas, add);
	/* date part, relative to the day count the code arrived at */
	ASSERT(1U <= r.m && r.m <= 12U, "add: month of the result in 1..12");
	ASSERT(1U <= r.d && (int)r.d <= S_MDAYS(r.y, r.m), "add: day of the result within its month");
	ASSERT(S_DAYNO(r.y, r.m, r.d) == I_DAYNO(bas) + verif_add_dd, "add: day number of the result == day number of the base + day count");
	if (I_ALLDAY(bas)) {
		ASSERT(verif_add_dd == verif_add_dd0, "add(all-day): day count is the whole-day part of the duration");
		ASSERT(r.H == bas.H && r.M == bas.M && r.S == bas.S && r.ms == bas.ms, "add(all-day): time fields untouched");
		SENTINEL("add allday");
	}
	if (verif_add_dd < -40) {
		SENTINEL("add walk down");
	}
	if (verif_add_dd > 40) {
		SENTINEL("add walk up");
	}
	SENTINEL("add walk");
}

/* time-of-day part in carry form: msod(bas)+msd0 == carry*86400000+msod(r) */
void h_C08_add_tod(void)
{
	IN_INSTANT_FIELDS(bas);
	IN_RANGE(int64_t, dur, -ADD_LIM, ADD_LIM);
	ASSUME(I_VALID(bas) && I_TIMED(bas));
	echs_idiff_t add = {dur};
	echs_instant_t r = echs_instant_add(bas, add);
	int carry = verif_add_dd - verif_add_dd0;
	ASSERT(I_VALID_TIME(r) && I_TIMED(r), "add: time of day of the result is valid");
	ASSERT(-1 <= carry && carry <= 1, "add: the time of day carries at most one day either way");
	/* ms digit: (bas.ms + msd0) == c1*1000 + r.ms */
	int t0 = (int)bas.ms + verif_add_msd0;
	int c1 = (t0 - (int)r.ms) / 1000;
	ASSERT(t0 - (int)r.ms == c1 * 1000, "add: ms digit and carry");
	int t1 = (int)bas.S + c1;
	int c2 = (t1 - (int)r.S) / 60;
	ASSERT(t1 - (int)r.S == c2 * 60, "add: seconds digit and carry");
	int t2 = (int)bas.M + c2;
	int c3 = (t2 - (int)r.M) / 60;
	ASSERT(t2 - (int)r.M == c3 * 60, "add: minutes digit and carry");
	int t3 = (int)bas.H + c3;
	ASSERT(t3 - (int)r.H == carry * 24, "add: hours digit and day carry");
	SENTINEL("add tod");
}
