/* spec_view.h -- abstract views of the BYxxx containers of bitint.h (C19).
 * A container denotes a SET; the view is that set as bit masks, defined from
 * the documented representation (bitint.h comments), and every contract is
 * stated over the whole view.
 *
 * unsigned containers (bituint31_t / bituint63_t), values 0..30 / 0..62:
 *   0 = empty; LSB set = exactly one value, stored in the upper bits;
 *   otherwise bit (x+1) is set for every member x.
 *   view VU(bi): bit x set <=> x is a member.
 * signed containers (bitint31_t / bitint63_t), values -31..31 / -63..63:
 *   pos==0 && neg==0 = empty; LSB of pos set = exactly one value, in neg;
 *   otherwise bit x of pos for members x > 0, bit -x of neg for members x <= 0.
 *   view (VP(bi), VN(bi)): bit x of VP <=> x > 0 is a member,
 *                          bit k of VN <=> -k <= 0 is a member.
 * Iteration ("rank") order: 0 first, positives ascending, then negatives by
 * ascending magnitude.  A cursor c (the iterator value) denotes the set
 * REM(c) of members not yet delivered; c == 0 is the start, and a call
 * either delivers the first member of REM(c) and leaves a NON-ZERO cursor
 * c' with REM(c') = REM(c) minus that member, or leaves c' == 0 when REM(c)
 * is empty.  Callers loop `while (x = next(&c, bi), c)`.
 */
#if !defined INCLUDED_spec_view_h_
#define INCLUDED_spec_view_h_
#include <stdint.h>

#define LOWBIT(m)	((m) & (~(m) + 1U))
#define LOWBIT64(m)	((m) & (~(m) + 1ULL))

/* ---- unsigned, 31 */
#define WF_BUI31(bi)	((bi) == 0U || !((bi) & 1U) || ((bi) >> 1U) <= 30U)
#define VU31(bi)	((uint32_t)((bi) == 0U ? 0U : ((bi) & 1U) ? (1U << (((bi) >> 1U) & 31U)) : ((bi) >> 1U)))
#define SINGLE_BUI(bi)	(((bi) & 1U) != 0U)
#define CUR_OK_BUI31(c, bi)	(SINGLE_BUI(bi) ? 1 : (c) <= 31U)
#define REM_BUI31(c, bi)	\
	((uint32_t)(SINGLE_BUI(bi) ? ((c) ? 0U : VU31(bi)) : ((VU31(bi) >> ((c) & 31U)) << ((c) & 31U))))

/* ---- unsigned, 63 */
#define WF_BUI63(bi)	((bi) == 0ULL || !((bi) & 1ULL) || ((bi) >> 1U) <= 62ULL)
#define VU63(bi)	((uint64_t)((bi) == 0ULL ? 0ULL : ((bi) & 1ULL) ? (1ULL << (((bi) >> 1U) & 63U)) : ((bi) >> 1U)))
#define CUR_OK_BUI63(c, bi)	(SINGLE_BUI(bi) ? 1 : (c) <= 63U)
#define REM_BUI63(c, bi)	\
	((uint64_t)(SINGLE_BUI(bi) ? ((c) ? 0ULL : VU63(bi)) : ((VU63(bi) >> ((c) & 63U)) << ((c) & 63U))))

/* ---- signed, 31 */
#define SINGLE_BI(bi)	(((bi).pos & 1U) != 0U)
#define WF_BI31(bi)	(!SINGLE_BI(bi) || (-31 <= (bi).neg && (bi).neg <= 31 && (bi).pos == 1U))
#define VP31(bi)	((uint32_t)(SINGLE_BI(bi) ? ((bi).neg > 0 ? 1U << ((unsigned)(bi).neg & 31U) : 0U) : (bi).pos))
#define VN31(bi)	((uint32_t)(SINGLE_BI(bi) ? ((bi).neg <= 0 ? 1U << ((unsigned)(-(bi).neg) & 31U) : 0U) : (uint32_t)(bi).neg))
#define CUR_OK_BI31(c, bi)	(SINGLE_BI(bi) ? 1 : ((c) <= 31U || (33U <= (c) && (c) <= 64U)))
/* members not yet delivered: zero, positives, negatives (bit k = value -k) */
#define REMZ_BI31(c, bi)	((c) == 0U && (VN31(bi) & 1U))
#define REMP_BI31(c, bi)	\
	((uint32_t)(SINGLE_BI(bi) ? ((c) ? 0U : VP31(bi)) : \
	 (c) <= 31U ? ((VP31(bi) >> (c)) << (c)) : 0U))
#define REMN_BI31(c, bi)	\
	((uint32_t)(SINGLE_BI(bi) ? ((c) ? 0U : (VN31(bi) & ~1U)) : \
	 (c) <= 32U ? (VN31(bi) & ~1U) : (c) >= 64U ? 0U : ((VN31(bi) >> ((c) - 32U)) << ((c) - 32U))))

/* ---- signed, 63 */
#define WF_BI63(bi)	(!SINGLE_BI(bi) || (-63 <= (bi).neg && (bi).neg <= 63 && (bi).pos == 1ULL))
#define VP63(bi)	((uint64_t)(SINGLE_BI(bi) ? ((bi).neg > 0 ? 1ULL << ((unsigned)(bi).neg & 63U) : 0ULL) : (bi).pos))
#define VN63(bi)	((uint64_t)(SINGLE_BI(bi) ? ((bi).neg <= 0 ? 1ULL << ((unsigned)(-(bi).neg) & 63U) : 0ULL) : (uint64_t)(bi).neg))
#define CUR_OK_BI63(c, bi)	(SINGLE_BI(bi) ? 1 : ((c) <= 63U || (65U <= (c) && (c) <= 128U)))
#define REMZ_BI63(c, bi)	((c) == 0U && (VN63(bi) & 1ULL))
#define REMP_BI63(c, bi)	\
	((uint64_t)(SINGLE_BI(bi) ? ((c) ? 0ULL : VP63(bi)) : \
	 (c) <= 63U ? ((VP63(bi) >> (c)) << (c)) : 0ULL))
#define REMN_BI63(c, bi)	\
	((uint64_t)(SINGLE_BI(bi) ? ((c) ? 0ULL : (VN63(bi) & ~1ULL)) : \
	 (c) <= 64U ? (VN63(bi) & ~1ULL) : (c) >= 128U ? 0ULL : ((VN63(bi) >> ((c) - 64U)) << ((c) - 64U))))

/* ---- signed, 383: 12 words each; native list (pos[0] even: count = pos[0]>>1 <= 12, values in neg[]
 * in rank order) or bitset (pos[0] odd: bit x%32 of pos[x/32] for x>0, bit k%32 of neg[k/32] for -k<=0) */
#define BS_383(bi)	(((bi)->pos[0] & 1U) != 0U)
#define CNT_383(bi)	((bi)->pos[0] >> 1U)
#define INR_383(x)	(-383 <= (x) && (x) <= 383)
#define RANK_LT(a, b)	(((a) >= 0 && (b) >= 0) ? (a) < (b) : ((a) < 0 && (b) < 0) ? (a) > (b) : (a) >= 0)
#define HASN_383(bi, x)	((CNT_383(bi) > 0U && (bi)->neg[0] == (x)) || (CNT_383(bi) > 1U && (bi)->neg[1] == (x)) || (CNT_383(bi) > 2U && (bi)->neg[2] == (x)) || (CNT_383(bi) > 3U && (bi)->neg[3] == (x)) || (CNT_383(bi) > 4U && (bi)->neg[4] == (x)) || (CNT_383(bi) > 5U && (bi)->neg[5] == (x)) || (CNT_383(bi) > 6U && (bi)->neg[6] == (x)) || (CNT_383(bi) > 7U && (bi)->neg[7] == (x)) || (CNT_383(bi) > 8U && (bi)->neg[8] == (x)) || (CNT_383(bi) > 9U && (bi)->neg[9] == (x)) || (CNT_383(bi) > 10U && (bi)->neg[10] == (x)) || (CNT_383(bi) > 11U && (bi)->neg[11] == (x)))
#define HASB_383(bi, x)	((x) > 0 ? (((bi)->pos[((unsigned)(x) / 32U) % 12U] >> ((unsigned)(x) % 32U)) & 1U) != 0U : (((uint32_t)(bi)->neg[((unsigned)(-(x)) / 32U) % 12U] >> ((unsigned)(-(x)) % 32U)) & 1U) != 0U)
#define HAS_383(bi, x)	(INR_383(x) && (BS_383(bi) ? HASB_383(bi, x) : HASN_383(bi, x)))
#define WFN_383(bi)	(CNT_383(bi) <= 12U && (CNT_383(bi) > 0U || (bi)->neg[0] == 0) && (CNT_383(bi) > 1U || (bi)->neg[1] == 0) && (CNT_383(bi) > 2U || (bi)->neg[2] == 0) && (CNT_383(bi) > 3U || (bi)->neg[3] == 0) && (CNT_383(bi) > 4U || (bi)->neg[4] == 0) && (CNT_383(bi) > 5U || (bi)->neg[5] == 0) && (CNT_383(bi) > 6U || (bi)->neg[6] == 0) && (CNT_383(bi) > 7U || (bi)->neg[7] == 0) && (CNT_383(bi) > 8U || (bi)->neg[8] == 0) && (CNT_383(bi) > 9U || (bi)->neg[9] == 0) && (CNT_383(bi) > 10U || (bi)->neg[10] == 0) && (CNT_383(bi) > 11U || (bi)->neg[11] == 0) && (CNT_383(bi) <= 1U || RANK_LT((bi)->neg[0], (bi)->neg[1])) && (CNT_383(bi) <= 2U || RANK_LT((bi)->neg[1], (bi)->neg[2])) && (CNT_383(bi) <= 3U || RANK_LT((bi)->neg[2], (bi)->neg[3])) && (CNT_383(bi) <= 4U || RANK_LT((bi)->neg[3], (bi)->neg[4])) && (CNT_383(bi) <= 5U || RANK_LT((bi)->neg[4], (bi)->neg[5])) && (CNT_383(bi) <= 6U || RANK_LT((bi)->neg[5], (bi)->neg[6])) && (CNT_383(bi) <= 7U || RANK_LT((bi)->neg[6], (bi)->neg[7])) && (CNT_383(bi) <= 8U || RANK_LT((bi)->neg[7], (bi)->neg[8])) && (CNT_383(bi) <= 9U || RANK_LT((bi)->neg[8], (bi)->neg[9])) && (CNT_383(bi) <= 10U || RANK_LT((bi)->neg[9], (bi)->neg[10])) && (CNT_383(bi) <= 11U || RANK_LT((bi)->neg[10], (bi)->neg[11])) && (CNT_383(bi) <= 0U || INR_383((bi)->neg[0])) && (CNT_383(bi) <= 1U || INR_383((bi)->neg[1])) && (CNT_383(bi) <= 2U || INR_383((bi)->neg[2])) && (CNT_383(bi) <= 3U || INR_383((bi)->neg[3])) && (CNT_383(bi) <= 4U || INR_383((bi)->neg[4])) && (CNT_383(bi) <= 5U || INR_383((bi)->neg[5])) && (CNT_383(bi) <= 6U || INR_383((bi)->neg[6])) && (CNT_383(bi) <= 7U || INR_383((bi)->neg[7])) && (CNT_383(bi) <= 8U || INR_383((bi)->neg[8])) && (CNT_383(bi) <= 9U || INR_383((bi)->neg[9])) && (CNT_383(bi) <= 10U || INR_383((bi)->neg[10])) && (CNT_383(bi) <= 11U || INR_383((bi)->neg[11])))
#define WF_383(bi)	(BS_383(bi) || WFN_383(bi))
#define BEFOREB_383(c, q)	((q) == 0 ? (c) >= 1U : (q) > 0 ? ((c) > (size_t)(q)) : ((c) > 384U + (size_t)(-(q))))
#define BEFOREN_383(bi, c, q)	((0U < (c) && CNT_383(bi) > 0U && (bi)->neg[0] == (q)) || (1U < (c) && CNT_383(bi) > 1U && (bi)->neg[1] == (q)) || (2U < (c) && CNT_383(bi) > 2U && (bi)->neg[2] == (q)) || (3U < (c) && CNT_383(bi) > 3U && (bi)->neg[3] == (q)) || (4U < (c) && CNT_383(bi) > 4U && (bi)->neg[4] == (q)) || (5U < (c) && CNT_383(bi) > 5U && (bi)->neg[5] == (q)) || (6U < (c) && CNT_383(bi) > 6U && (bi)->neg[6] == (q)) || (7U < (c) && CNT_383(bi) > 7U && (bi)->neg[7] == (q)) || (8U < (c) && CNT_383(bi) > 8U && (bi)->neg[8] == (q)) || (9U < (c) && CNT_383(bi) > 9U && (bi)->neg[9] == (q)) || (10U < (c) && CNT_383(bi) > 10U && (bi)->neg[10] == (q)) || (11U < (c) && CNT_383(bi) > 11U && (bi)->neg[11] == (q)))
#define BEFORE_383(bi, c, q)	(BS_383(bi) ? BEFOREB_383(c, q) : BEFOREN_383(bi, c, q))
/* reachable cursors in bitset mode: start, after the zero slot, just past a positive member,
 * just past a negative member */
#define CUR_OK_383(bi, c)	(BS_383(bi) ? ((c) <= 1U || ((c) < 384U && HASB_383(bi, (int)(c) - 1)) || ((c) == 385U && HASB_383(bi, 383)) || (386U <= (c) && (c) <= 768U && HASB_383(bi, -((int)(c) - 385)))) : (c) <= CNT_383(bi))

/* ---- signed, 447: 14 words each; native list (pos[0] even: count = pos[0]>>1 <= 14, values in neg[]
 * in rank order) or bitset (pos[0] odd: bit x%32 of pos[x/32] for x>0, bit k%32 of neg[k/32] for -k<=0) */
#define BS_447(bi)	(((bi)->pos[0] & 1U) != 0U)
#define CNT_447(bi)	((bi)->pos[0] >> 1U)
#define INR_447(x)	(-447 <= (x) && (x) <= 447)
#define RANK_LT_UNUSED(a, b)	(((a) >= 0 && (b) >= 0) ? (a) < (b) : ((a) < 0 && (b) < 0) ? (a) > (b) : (a) >= 0)
#define HASN_447(bi, x)	((CNT_447(bi) > 0U && (bi)->neg[0] == (x)) || (CNT_447(bi) > 1U && (bi)->neg[1] == (x)) || (CNT_447(bi) > 2U && (bi)->neg[2] == (x)) || (CNT_447(bi) > 3U && (bi)->neg[3] == (x)) || (CNT_447(bi) > 4U && (bi)->neg[4] == (x)) || (CNT_447(bi) > 5U && (bi)->neg[5] == (x)) || (CNT_447(bi) > 6U && (bi)->neg[6] == (x)) || (CNT_447(bi) > 7U && (bi)->neg[7] == (x)) || (CNT_447(bi) > 8U && (bi)->neg[8] == (x)) || (CNT_447(bi) > 9U && (bi)->neg[9] == (x)) || (CNT_447(bi) > 10U && (bi)->neg[10] == (x)) || (CNT_447(bi) > 11U && (bi)->neg[11] == (x)) || (CNT_447(bi) > 12U && (bi)->neg[12] == (x)) || (CNT_447(bi) > 13U && (bi)->neg[13] == (x)))
#define HASB_447(bi, x)	((x) > 0 ? (((bi)->pos[((unsigned)(x) / 32U) % 14U] >> ((unsigned)(x) % 32U)) & 1U) != 0U : (((uint32_t)(bi)->neg[((unsigned)(-(x)) / 32U) % 14U] >> ((unsigned)(-(x)) % 32U)) & 1U) != 0U)
#define HAS_447(bi, x)	(INR_447(x) && (BS_447(bi) ? HASB_447(bi, x) : HASN_447(bi, x)))
#define WFN_447(bi)	(CNT_447(bi) <= 14U && (CNT_447(bi) > 0U || (bi)->neg[0] == 0) && (CNT_447(bi) > 1U || (bi)->neg[1] == 0) && (CNT_447(bi) > 2U || (bi)->neg[2] == 0) && (CNT_447(bi) > 3U || (bi)->neg[3] == 0) && (CNT_447(bi) > 4U || (bi)->neg[4] == 0) && (CNT_447(bi) > 5U || (bi)->neg[5] == 0) && (CNT_447(bi) > 6U || (bi)->neg[6] == 0) && (CNT_447(bi) > 7U || (bi)->neg[7] == 0) && (CNT_447(bi) > 8U || (bi)->neg[8] == 0) && (CNT_447(bi) > 9U || (bi)->neg[9] == 0) && (CNT_447(bi) > 10U || (bi)->neg[10] == 0) && (CNT_447(bi) > 11U || (bi)->neg[11] == 0) && (CNT_447(bi) > 12U || (bi)->neg[12] == 0) && (CNT_447(bi) > 13U || (bi)->neg[13] == 0) && (CNT_447(bi) <= 1U || RANK_LT((bi)->neg[0], (bi)->neg[1])) && (CNT_447(bi) <= 2U || RANK_LT((bi)->neg[1], (bi)->neg[2])) && (CNT_447(bi) <= 3U || RANK_LT((bi)->neg[2], (bi)->neg[3])) && (CNT_447(bi) <= 4U || RANK_LT((bi)->neg[3], (bi)->neg[4])) && (CNT_447(bi) <= 5U || RANK_LT((bi)->neg[4], (bi)->neg[5])) && (CNT_447(bi) <= 6U || RANK_LT((bi)->neg[5], (bi)->neg[6])) && (CNT_447(bi) <= 7U || RANK_LT((bi)->neg[6], (bi)->neg[7])) && (CNT_447(bi) <= 8U || RANK_LT((bi)->neg[7], (bi)->neg[8])) && (CNT_447(bi) <= 9U || RANK_LT((bi)->neg[8], (bi)->neg[9])) && (CNT_447(bi) <= 10U || RANK_LT((bi)->neg[9], (bi)->neg[10])) && (CNT_447(bi) <= 11U || RANK_LT((bi)->neg[10], (bi)->neg[11])) && (CNT_447(bi) <= 12U || RANK_LT((bi)->neg[11], (bi)->neg[12])) && (CNT_447(bi) <= 13U || RANK_LT((bi)->neg[12], (bi)->neg[13])) && (CNT_447(bi) <= 0U || INR_447((bi)->neg[0])) && (CNT_447(bi) <= 1U || INR_447((bi)->neg[1])) && (CNT_447(bi) <= 2U || INR_447((bi)->neg[2])) && (CNT_447(bi) <= 3U || INR_447((bi)->neg[3])) && (CNT_447(bi) <= 4U || INR_447((bi)->neg[4])) && (CNT_447(bi) <= 5U || INR_447((bi)->neg[5])) && (CNT_447(bi) <= 6U || INR_447((bi)->neg[6])) && (CNT_447(bi) <= 7U || INR_447((bi)->neg[7])) && (CNT_447(bi) <= 8U || INR_447((bi)->neg[8])) && (CNT_447(bi) <= 9U || INR_447((bi)->neg[9])) && (CNT_447(bi) <= 10U || INR_447((bi)->neg[10])) && (CNT_447(bi) <= 11U || INR_447((bi)->neg[11])) && (CNT_447(bi) <= 12U || INR_447((bi)->neg[12])) && (CNT_447(bi) <= 13U || INR_447((bi)->neg[13])))
#define WF_447(bi)	(BS_447(bi) || WFN_447(bi))
#define BEFOREB_447(c, q)	((q) == 0 ? (c) >= 1U : (q) > 0 ? ((c) > (size_t)(q)) : ((c) > 448U + (size_t)(-(q))))
#define BEFOREN_447(bi, c, q)	((0U < (c) && CNT_447(bi) > 0U && (bi)->neg[0] == (q)) || (1U < (c) && CNT_447(bi) > 1U && (bi)->neg[1] == (q)) || (2U < (c) && CNT_447(bi) > 2U && (bi)->neg[2] == (q)) || (3U < (c) && CNT_447(bi) > 3U && (bi)->neg[3] == (q)) || (4U < (c) && CNT_447(bi) > 4U && (bi)->neg[4] == (q)) || (5U < (c) && CNT_447(bi) > 5U && (bi)->neg[5] == (q)) || (6U < (c) && CNT_447(bi) > 6U && (bi)->neg[6] == (q)) || (7U < (c) && CNT_447(bi) > 7U && (bi)->neg[7] == (q)) || (8U < (c) && CNT_447(bi) > 8U && (bi)->neg[8] == (q)) || (9U < (c) && CNT_447(bi) > 9U && (bi)->neg[9] == (q)) || (10U < (c) && CNT_447(bi) > 10U && (bi)->neg[10] == (q)) || (11U < (c) && CNT_447(bi) > 11U && (bi)->neg[11] == (q)) || (12U < (c) && CNT_447(bi) > 12U && (bi)->neg[12] == (q)) || (13U < (c) && CNT_447(bi) > 13U && (bi)->neg[13] == (q)))
#define BEFORE_447(bi, c, q)	(BS_447(bi) ? BEFOREB_447(c, q) : BEFOREN_447(bi, c, q))
/* reachable cursors in bitset mode: start, after the zero slot, just past a positive member,
 * just past a negative member */
#define CUR_OK_447(bi, c)	(BS_447(bi) ? ((c) <= 1U || ((c) < 448U && HASB_447(bi, (int)(c) - 1)) || ((c) == 449U && HASB_447(bi, 447)) || (450U <= (c) && (c) <= 896U && HASB_447(bi, -((int)(c) - 449)))) : (c) <= CNT_447(bi))

#endif	/* INCLUDED_spec_view_h_ */
