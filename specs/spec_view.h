/* spec_view.h -- abstract views of the BYxxx containers of bitint.h (C19).
 * A container denotes a SET; the view is that set as bit masks, defined from
 * the documented representation (bitint.h comments), and every contract is
 * stated over the whole view.
 *
 * unsigned containers (bituint31_t / bituint63_t), values 0..30 / 0..62:
 *   0 = empty; LSB set = exactly one value, stored in the upper bits;
 *   otherwise bit (x+1) is set for every member x.
 *   view VU(bi): bit x set <=> x is a member.
 * signed containers (bitint31_t / bitint63_t), values -31..31 / -63..63:
 *   pos==0 && neg==0 = empty; LSB of pos set = exactly one value, in neg;
 *   otherwise bit x of pos for members x > 0, bit -x of neg for members x <= 0.
 *   view (VP(bi), VN(bi)): bit x of VP <=> x > 0 is a member,
 *                          bit k of VN <=> -k <= 0 is a member.
 * Iteration ("rank") order: 0 first, positives ascending, then negatives by
 * ascending magnitude.  A cursor c (the iterator value) denotes the set
 * REM(c) of members not yet delivered; c == 0 is the start, and a call
 * either delivers the first member of REM(c) and leaves a NON-ZERO cursor
 * c' with REM(c') = REM(c) minus that member, or leaves c' == 0 when REM(c)
 * is empty.  Callers loop `while (x = next(&c, bi), c)`.
 */
#if !defined INCLUDED_spec_view_h_
#define INCLUDED_spec_view_h_
#include <stdint.h>

#define LOWBIT(m)	((m) & (~(m) + 1U))
#define LOWBIT64(m)	((m) & (~(m) + 1ULL))

/* ---- unsigned, 31 */
#define WF_BUI31(bi)	((bi) == 0U || !((bi) & 1U) || ((bi) >> 1U) <= 30U)
#define VU31(bi)	((uint32_t)((bi) == 0U ? 0U : ((bi) & 1U) ? (1U << (((bi) >> 1U) & 31U)) : ((bi) >> 1U)))
#define SINGLE_BUI(bi)	(((bi) & 1U) != 0U)
#define CUR_OK_BUI31(c, bi)	(SINGLE_BUI(bi) ? 1 : (c) <= 31U)
#define REM_BUI31(c, bi)	\
	((uint32_t)(SINGLE_BUI(bi) ? ((c) ? 0U : VU31(bi)) : ((VU31(bi) >> ((c) & 31U)) << ((c) & 31U))))

/* ---- unsigned, 63 */
#define WF_BUI63(bi)	((bi) == 0ULL || !((bi) & 1ULL) || ((bi) >> 1U) <= 62ULL)
#define VU63(bi)	((uint64_t)((bi) == 0ULL ? 0ULL : ((bi) & 1ULL) ? (1ULL << (((bi) >> 1U) & 63U)) : ((bi) >> 1U)))
#define CUR_OK_BUI63(c, bi)	(SINGLE_BUI(bi) ? 1 : (c) <= 63U)
#define REM_BUI63(c, bi)	\
	((uint64_t)(SINGLE_BUI(bi) ? ((c) ? 0ULL : VU63(bi)) : ((VU63(bi) >> ((c) & 63U)) << ((c) & 63U))))

/* ---- signed, 31 */
#define SINGLE_BI(bi)	(((bi).pos & 1U) != 0U)
#define WF_BI31(bi)	(!SINGLE_BI(bi) || (-31 <= (bi).neg && (bi).neg <= 31 && (bi).pos == 1U))
#define VP31(bi)	((uint32_t)(SINGLE_BI(bi) ? ((bi).neg > 0 ? 1U << ((unsigned)(bi).neg & 31U) : 0U) : (bi).pos))
#define VN31(bi)	((uint32_t)(SINGLE_BI(bi) ? ((bi).neg <= 0 ? 1U << ((unsigned)(-(bi).neg) & 31U) : 0U) : (uint32_t)(bi).neg))
#define CUR_OK_BI31(c, bi)	(SINGLE_BI(bi) ? 1 : ((c) <= 31U || (33U <= (c) && (c) <= 64U)))
/* members not yet delivered: zero, positives, negatives (bit k = value -k) */
#define REMZ_BI31(c, bi)	((c) == 0U && (VN31(bi) & 1U))
#define REMP_BI31(c, bi)	\
	((uint32_t)(SINGLE_BI(bi) ? ((c) ? 0U : VP31(bi)) : \
	 (c) <= 31U ? ((VP31(bi) >> (c)) << (c)) : 0U))
#define REMN_BI31(c, bi)	\
	((uint32_t)(SINGLE_BI(bi) ? ((c) ? 0U : (VN31(bi) & ~1U)) : \
	 (c) <= 32U ? (VN31(bi) & ~1U) : (c) >= 64U ? 0U : ((VN31(bi) >> ((c) - 32U)) << ((c) - 32U))))

/* ---- signed, 63 */
#define WF_BI63(bi)	(!SINGLE_BI(bi) || (-63 <= (bi).neg && (bi).neg <= 63 && (bi).pos == 1ULL))
#define VP63(bi)	((uint64_t)(SINGLE_BI(bi) ? ((bi).neg > 0 ? 1ULL << ((unsigned)(bi).neg & 63U) : 0ULL) : (bi).pos))
#define VN63(bi)	((uint64_t)(SINGLE_BI(bi) ? ((bi).neg <= 0 ? 1ULL << ((unsigned)(-(bi).neg) & 63U) : 0ULL) : (uint64_t)(bi).neg))
#define CUR_OK_BI63(c, bi)	(SINGLE_BI(bi) ? 1 : ((c) <= 63U || (65U <= (c) && (c) <= 128U)))
#define REMZ_BI63(c, bi)	((c) == 0U && (VN63(bi) & 1ULL))
#define REMP_BI63(c, bi)	\
	((uint64_t)(SINGLE_BI(bi) ? ((c) ? 0ULL : VP63(bi)) : \
	 (c) <= 63U ? ((VP63(bi) >> (c)) << (c)) : 0ULL))
#define REMN_BI63(c, bi)	\
	((uint64_t)(SINGLE_BI(bi) ? ((c) ? 0ULL : (VN63(bi) & ~1ULL)) : \
	 (c) <= 64U ? (VN63(bi) & ~1ULL) : (c) >= 128U ? 0ULL : ((VN63(bi) >> ((c) - 64U)) << ((c) - 64U))))

#endif	/* INCLUDED_spec_view_h_ */
