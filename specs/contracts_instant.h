/* contracts_instant.h -- contracts of instant.c / instant.h (C08, shared).
 * PRE_f / POST_f are the single source: the harness of f asserts POST_f on
 * the real f (value variant, replayable), and the contract declaration
 * below (built from the same macros) is what call sites in other proofs
 * see after --replace-call-with-contract.
 * Postconditions are taken from the property text: "agree with true elapsed
 * time on the proleptic Gregorian calendar", time point = (day number,
 * ms of day), never one wide number (R1). */
#if !defined INCLUDED_contracts_instant_h_
#define INCLUDED_contracts_instant_h_
#include "instant.h"
#include "spec_instant.h"

/* two instants of the same kind (both timed, both all-sec or both all-day) */
#define I_SAME_KIND(a, b)	\
	(I_ALLDAY(a) == I_ALLDAY(b) && (I_ALLDAY(a) || I_ALLSEC(a) == I_ALLSEC(b)))

/* ---- day-number kernels of instant.c (static): contracts in terms of the
 * spec's day number.  __jan00 counts days from 1601-01-00; the constant is
 * S_DAYNO(1601,1,0) = 365*1601 + 1600/4 = 584765 + ... fixed by obligation
 * C08.kernels (a wrong constant cannot verify). */
#define S_JAN00_BASE	584768U
#define PRE_jan00(y)	(S_YMIN <= (int)(y) && (int)(y) <= S_YMAX)
#define POST_jan00(ret, y)	((unsigned)(ret) == 365U * (unsigned)(y) + ((unsigned)(y) - 1U) / 4U - S_JAN00_BASE)
#define PRE_doy(i)	I_VALID_DATE(i)
#define POST_doy(ret, i)	((int)(ret) == S_YDAY((i).y, (i).m, (i).d))
#define PRE_get_mdays(y, m)	(1U <= (m) && (m) <= 12U)
#define POST_get_mdays(ret, y, m)	((int)(ret) == spec_mdays[(m)] + (((m) == 2U && (y) % 4U == 0U) ? 1 : 0))

#if defined CONTRACT_DECLS_instant && !defined REPLAY
static inline unsigned int __jan00(unsigned int year)
__CPROVER_requires(PRE_jan00(year))
__CPROVER_ensures(POST_jan00(__CPROVER_return_value, year))
__CPROVER_assigns();
static inline unsigned int __doy(echs_instant_t i)
__CPROVER_requires(PRE_doy(i))
__CPROVER_ensures(POST_doy(__CPROVER_return_value, i))
__CPROVER_assigns();
static inline unsigned int __get_mdays(unsigned int y, unsigned int m)
__CPROVER_requires(PRE_get_mdays(y, m))
__CPROVER_ensures(POST_get_mdays(__CPROVER_return_value, y, m))
__CPROVER_assigns();
#endif

/* ---- echs_instant_diff(end, beg): true elapsed time, any sign, any span */
#define PRE_diff(end, beg)	(I_VALID(end) && I_VALID(beg) && I_SAME_KIND(end, beg))
/* pair form: (whole days, ms within the day) of the elapsed time, the ms
 * part normalised to 0 <= ms < 86400000 (floor convention); the elapsed
 * time in ms is by definition days*86400000 + ms */
/* difference of two mixed-radix numbers, Horner form on the digit
 * differences (== I_MSOD(end) - I_MSOD(beg): obligation C08.spec.horner) */
#define SPEC_sod_diff(end, beg)	\
	((((int)(end).H - (int)(beg).H) * 60 + ((int)(end).M - (int)(beg).M)) * 60 + ((int)(end).S - (int)(beg).S))
#define SPEC_diff_ms0(end, beg)	\
	(I_ALLDAY(end) ? 0 : \
	 (SPEC_sod_diff(end, beg) * 1000 + (I_ALLSEC(end) ? 0 : (int)(end).ms - (int)(beg).ms)))
#define SPEC_diff_days(end, beg)	\
	(I_DAYNO(end) - I_DAYNO(beg) - (SPEC_diff_ms0(end, beg) < 0 ? 1 : 0))
#define SPEC_diff_ms(end, beg)	\
	(SPEC_diff_ms0(end, beg) + (SPEC_diff_ms0(end, beg) < 0 ? S_MS_PER_DAY : 0))
#define SPEC_diff(end, beg)	\
	((int64_t)SPEC_diff_days(end, beg) * (int64_t)S_MS_PER_DAY + (int64_t)SPEC_diff_ms(end, beg))
#define POST_diff(ret, end, beg)	((ret).d == SPEC_diff(end, beg))

/* ---- echs_instant_fixup(e): same time point, valid result.
 * Over-full fields are read arithmetically: month m>12 continues into the
 * following years, day d > month length continues into the following
 * months, H>=24 / M>=60 / S>=60 / ms>=1000 carry upwards.
 * Precondition: every carry fits the field it is added to (S is 6 bits,
 * M, H, d, m are 8 bits); fixup is for additive overflow only. */
/* carry form (R1: only narrow divisions): seconds incl. carry, minutes incl.
 * carry, hours incl. carry */
#define FX_S1(e)	((int)(e).S + (int)(e).ms / 1000)
#define FX_M1(e)	((int)(e).M + FX_S1(e) / 60)
#define FX_H1(e)	((int)(e).H + FX_M1(e) / 60)
#define FX_YN(e)	((int)(e).y + ((int)(e).m - 1) / 12)
#define FX_MN(e)	(((int)(e).m - 1) % 12 + 1)
#define PRE_fixup_date(e)	\
	(1U <= (e).d && 1U <= (e).m && (e).m <= 24U && \
	 S_YMIN <= (int)(e).y && FX_YN(e) + 2 <= S_YMAX)
#define PRE_fixup_timed(e)	\
	(I_TIMED(e) && (e).ms <= 1022U && FX_S1(e) <= 63 && FX_M1(e) <= 255 && \
	 FX_H1(e) <= 254 && (int)(e).d + FX_H1(e) / 24 <= 255 && PRE_fixup_date(e))
#define PRE_fixup_allsec(e)	\
	(I_ALLSEC(e) && !I_ALLDAY(e) && (int)(e).M + (int)(e).S / 60 <= 255 && \
	 (int)(e).H + ((int)(e).M + (int)(e).S / 60) / 60 <= 254 && \
	 (int)(e).d + ((int)(e).H + ((int)(e).M + (int)(e).S / 60) / 60) / 24 <= 255 && PRE_fixup_date(e))
#define PRE_fixup_allday(e)	\
	(I_ALLDAY(e) && (e).M == 0U && (e).S == 0U && (e).ms == 0U && PRE_fixup_date(e))
/* day number of an over-full date, counted from the first of the
 * normalised month */
#define FX_DAYNO(e)	(S_DAYNO(FX_YN(e), FX_MN(e), 1) + (int)(e).d - 1)
#define POST_fixup_timed(r, e)	\
	(I_VALID(r) && I_TIMED(r) && \
	 (int)(r).ms == (int)(e).ms % 1000 && (int)(r).S == FX_S1(e) % 60 && \
	 (int)(r).M == FX_M1(e) % 60 && (int)(r).H == FX_H1(e) % 24 && \
	 I_DAYNO(r) == FX_DAYNO(e) + FX_H1(e) / 24)
#define FX_M1S(e)	((int)(e).M + (int)(e).S / 60)
#define FX_H1S(e)	((int)(e).H + FX_M1S(e) / 60)
#define POST_fixup_allsec(r, e)	\
	(I_VALID(r) && I_ALLSEC(r) && !I_ALLDAY(r) && \
	 (int)(r).S == (int)(e).S % 60 && (int)(r).M == FX_M1S(e) % 60 && \
	 (int)(r).H == FX_H1S(e) % 24 && I_DAYNO(r) == FX_DAYNO(e) + FX_H1S(e) / 24)
#define POST_fixup_allday(r, e)	\
	(I_VALID(r) && I_ALLDAY(r) && I_DAYNO(r) == FX_DAYNO(e) && \
	 (r).M == (e).M && (r).S == (e).S && (r).ms == (e).ms)

/* ---- echs_instant_add(bas, add): contract used at call sites (C02, C07)
 * the value form is discharged on strata only (R1c), see h_C08.c */
#define PRE_add(bas)	(I_VALID(bas))

#endif	/* INCLUDED_contracts_instant_h_ */
