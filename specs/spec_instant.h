/* spec_instant.h -- the abstract reading of an echs_instant_t, for contracts.
 * A valid instant denotes the time point (I_DAYNO, I_MSOD); all-day instants
 * (H==0xff, other time fields 0, as dt_strp builds them) denote the whole day, all-sec instants (ms==0x3ff) a whole second.
 * Needs instant.h (the real type) and spec_cal.h. */
#if !defined INCLUDED_spec_instant_h_
#define INCLUDED_spec_instant_h_
#include "spec_cal.h"

#define I_ALLDAY(i)	((i).H == 0xffU)
#define I_ALLSEC(i)	((i).ms == 0x3ffU)

#define I_VALID_DATE(i)	S_VALID_DATE((i).y, (i).m, (i).d)
#define I_VALID_TIME(i)	\
	((I_ALLDAY(i) && (i).M == 0U && (i).S == 0U && (i).ms == 0U) || \
	 ((i).H < 24U && (i).M < 60U && (i).S < 60U && ((i).ms < 1000U || I_ALLSEC(i))))
#define I_VALID(i)	(I_VALID_DATE(i) && I_VALID_TIME(i))
/* fully timed: has hour, minute, second and millisecond */
#define I_TIMED(i)	(!I_ALLDAY(i) && !I_ALLSEC(i))

#define I_DAYNO(i)	S_DAYNO((i).y, (i).m, (i).d)
#define I_SOD(i)	S_SOD((i).H, (i).M, (i).S)
/* only meaningful for I_TIMED */
#define I_MSOD(i)	S_MSOD((i).H, (i).M, (i).S, (i).ms)

/* chronological order as the property states it: by day, all-day before
 * every timed value of the same day, then by time of day; an all-sec value
 * before every value with milliseconds of the same second.  Written
 * lexicographically (no products to compare, R1). */
#define I_MSKEY(i)	(I_ALLSEC(i) ? 0 : 1 + (int)(i).ms)
#define I_TIME_LT(a, b)	\
	(I_ALLDAY(a) ? !I_ALLDAY(b) : \
	 (!I_ALLDAY(b) && \
	  ((a).H < (b).H || ((a).H == (b).H && \
	   ((a).M < (b).M || ((a).M == (b).M && \
	    ((a).S < (b).S || ((a).S == (b).S && I_MSKEY(a) < I_MSKEY(b)))))))))
/* dates compare lexicographically; that this is the order of the day
 * numbers is obligation C08.spec.order */
#define I_DATE_LT(a, b)	\
	((a).y < (b).y || ((a).y == (b).y && ((a).m < (b).m || ((a).m == (b).m && (a).d < (b).d))))
#define I_DATE_EQ(a, b)	((a).y == (b).y && (a).m == (b).m && (a).d == (b).d)
#define I_LT(a, b)	\
	(I_DATE_LT(a, b) || (I_DATE_EQ(a, b) && I_TIME_LT(a, b)))

/* the order the code implements, as a macro (for loop invariants):
 * H and ms incremented with wrap-around, then compared as one number */
#define IKEY(i)	\
	(((uint64_t)(i).y << 48) | ((uint64_t)(i).m << 40) | ((uint64_t)(i).d << 32) | \
	 ((uint64_t)(((i).H + 1U) & 0xffU) << 24) | ((uint64_t)(i).M << 16) | \
	 ((uint64_t)(i).S << 10) | (uint64_t)(((i).ms + 1U) & 0x3ffU))

#endif	/* INCLUDED_spec_instant_h_ */
