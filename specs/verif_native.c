/* verif_native.c -- runtime of the native replay / search build (-DREPLAY).
 *
 *   replay:  prog name=value ...      (values from CBMC's counterexample)
 *            exit 0 all ASSERTs held; 1 an ASSERT failed; 3 an ASSUME failed
 *   search:  prog --search N --seed S [name=value ... as pinned inputs]
 *            draws the unpinned inputs at random (IN_RANGE: uniform in the
 *            range; IN: mixture of boundary values and random bits), skips
 *            draws that violate an ASSUME; exit 1 + "FOUND name=value ..."
 *            at the first ASSERT failure, exit 0 if none in N tries.
 */
#include <stdio.h>
#include <stdlib.h>
#include <string.h>
#include <setjmp.h>
#include <stdint.h>

#if !defined HARNESS
# error HARNESS undefined
#endif
extern void HARNESS(void);

#define MAXIN	256
static struct { const char *name; long long v; int pinned; } in[MAXIN];
static int nin;
static int searching;
static jmp_buf again;
static uint64_t rs = 88172645463325252ULL;
static unsigned long n_assume_fail;

static uint64_t rnd(void)
{
	rs ^= rs << 13; rs ^= rs >> 7; rs ^= rs << 17;
	return rs;
}

static int find(const char *name)
{
	for (int i = 0; i < nin; i++) {
		if (!strcmp(in[i].name, name)) {
			return i;
		}
	}
	return -1;
}

long long
vr_input(const char *name, long long lo, long long hi, int ranged, int bits, int sgn)
{
	int i = find(name);
	long long v;

	if (i >= 0 && in[i].pinned) {
		return in[i].v;
	}
	if (!searching) {
		/* unspecified input in replay mode: 0 (or lo) */
		v = ranged ? lo : 0;
	} else if (ranged) {
		unsigned long long span = (unsigned long long)hi - (unsigned long long)lo + 1ULL;
		v = span ? lo + (long long)(rnd() % span) : (long long)rnd();
	} else {
		uint64_t r = rnd();
		switch (r & 7U) {
		case 0: v = 0; break;
		case 1: v = 1; break;
		case 2: v = -1; break;
		case 3: v = (long long)((rnd() % 64U)); break;
		case 4: v = (long long)(1ULL << (rnd() % (unsigned)(bits > 1 ? bits : 1))) - (long long)(rnd() & 1U); break;
		default: v = (long long)rnd(); break;
		}
		if (bits < 64) {
			uint64_t m = (1ULL << bits) - 1ULL;
			uint64_t u = (uint64_t)v & m;
			if (sgn && (u >> (bits - 1))) {
				u |= ~m;
			}
			v = (long long)u;
		}
	}
	if (i < 0 && nin < MAXIN) {
		i = nin++;
		in[i].name = name;
		in[i].pinned = 0;
	}
	if (i >= 0) {
		in[i].v = v;
	}
	return v;
}

static void dump(const char *tag)
{
	printf("%s", tag);
	for (int i = 0; i < nin; i++) {
		printf(" %s=%lld", in[i].name, in[i].v);
	}
	putchar('\n');
	fflush(stdout);
}

void vr_assume_failed(const char *what)
{
	if (searching) {
		n_assume_fail++;
		longjmp(again, 1);
	}
	printf("ASSUME-FAILED: %s\n", what);
	dump("INPUTS");
	exit(3);
}

void vr_assert_failed(const char *what)
{
	printf("ASSERT-FAILED: %s\n", what);
	dump(searching ? "FOUND" : "INPUTS");
	exit(1);
}

void vr_sentinel(const char *what)
{
	(void)what;
}

int main(int argc, char *argv[])
{
	long ntries = 0;

	for (int a = 1; a < argc; a++) {
		char *eq;
		if (!strcmp(argv[a], "--search") && a + 1 < argc) {
			ntries = atol(argv[++a]);
			searching = 1;
		} else if (!strcmp(argv[a], "--seed") && a + 1 < argc) {
			rs ^= (uint64_t)atoll(argv[++a]) * 0x9E3779B97F4A7C15ULL;
			if (!rs) rs = 1;
		} else if ((eq = strchr(argv[a], '=')) != NULL && nin < MAXIN) {
			*eq = '\0';
			in[nin].name = argv[a];
			in[nin].v = strtoll(eq + 1, NULL, 0);
			if (eq[1] != '-' && in[nin].v == 0x7fffffffffffffffLL) {
				in[nin].v = (long long)strtoull(eq + 1, NULL, 0);
			}
			in[nin].pinned = 1;
			nin++;
		}
	}
	if (!searching) {
		HARNESS();
		puts("REPLAY-OK");
		return 0;
	}
	for (volatile long t = 0; t < ntries; t++) {
		if (setjmp(again)) {
			continue;
		}
		HARNESS();
	}
	printf("SEARCH-EXHAUSTED tries=%ld assume_failed=%lu\n", ntries, n_assume_fail);
	return 0;
}
