/* verif.h -- harness vocabulary, compiled twice:
 *   - for CBMC (default): inputs are nondet scalars, ASSUME/ASSERT are
 *     __CPROVER_assume/__CPROVER_assert, SENTINEL is an assertion that
 *     must be reachable (FAIL) -- the vacuity guard;
 *   - natively (-DREPLAY): inputs come from name=value pairs (the values
 *     CBMC's counterexample gave them) or from a seeded random search,
 *     ASSUME/ASSERT evaluate the same expression on the natively compiled
 *     real code.
 * Harness inputs are always declared with IN()/IN_RANGE() so both modes
 * agree on their names. */
#if !defined INCLUDED_verif_h_
#define INCLUDED_verif_h_
#include <stdint.h>
#include <stdbool.h>
#include <stddef.h>

#if defined REPLAY
# include <stdio.h>
# include <stdlib.h>
# include <string.h>
extern long long vr_input(const char *name, long long lo, long long hi, int ranged, int bits, int sgn);
extern void vr_assume_failed(const char *what);
extern void vr_assert_failed(const char *what);
extern void vr_sentinel(const char *what);
# define VR_BITS(T)	((int)(sizeof(T) * 8U))
# define VR_SGN(T)	((T)-1 < (T)1)
# define IN(T, name)	T name = (T)vr_input(#name, 0, 0, 0, VR_BITS(T), VR_SGN(T))
# define IN_BOOL(name)	bool name = (bool)(vr_input(#name, 0, 1, 1, 1, 0) != 0)
# define IN_RANGE(T, name, lo, hi)	\
	T name = (T)vr_input(#name, (long long)(lo), (long long)(hi), 1, VR_BITS(T), VR_SGN(T))
# define ASSUME(c)	do { if (!(c)) vr_assume_failed(#c); } while (0)
# define ASSERT(c, msg)	do { if (!(c)) vr_assert_failed(msg); } while (0)
# define SENTINEL(msg)	vr_sentinel(msg)
/* contract syntax vanishes natively */
# define __CPROVER_requires(...)
# define __CPROVER_ensures(...)
# define __CPROVER_assigns(...)
# define __CPROVER_frees(...)
# define __CPROVER_loop_invariant(...)
# define __CPROVER_decreases(...)
# define __CPROVER_assume(c)	ASSUME(c)
# define __CPROVER_assert(c, m)	ASSERT(c, m)
#else  /* CBMC */
unsigned nondet_unsigned(void);
int nondet_int(void);
uint8_t nondet_uint8_t(void);
uint16_t nondet_uint16_t(void);
uint32_t nondet_uint32_t(void);
int32_t nondet_int32_t(void);
uint64_t nondet_uint64_t(void);
int64_t nondet_int64_t(void);
size_t nondet_size_t(void);
long nondet_long(void);
char nondet_char(void);
_Bool nondet_bool(void);
# define IN(T, name)	T name = nondet_##T()
# define IN_BOOL(name)	bool name = nondet_bool()
# define IN_RANGE(T, name, lo, hi)	\
	T name = nondet_##T(); __CPROVER_assume((lo) <= name && name <= (hi))
# define ASSUME(c)	__CPROVER_assume(c)
# define ASSERT(c, msg)	__CPROVER_assert(c, msg)
# define SENTINEL(msg)	__CPROVER_assert(0, "VACUITY-SENTINEL " msg)
#endif

#endif	/* INCLUDED_verif_h_ */
