/* spec_cal.h -- calendar specification vocabulary.
 * Written from ISO 8601 / RFC 5545, not from echse's code.  Range 1901..2099
 * (in which the Gregorian leap rule coincides with y%4==0; S_LEAPG is the
 * full rule, and their agreement on the range is a proved obligation).
 * Everything is a macro so that it may appear in loop invariants (CBMC does
 * not allow function calls there); arguments are evaluated more than once,
 * so only side-effect free expressions may be passed.
 * A time point is the PAIR (S_DAYNO, S_MSOD) -- never one wide number that
 * would have to be divided (DESIGN R1). */
#if !defined INCLUDED_spec_cal_h_
#define INCLUDED_spec_cal_h_

#define S_YMIN	1901
#define S_YMAX	2099

#define S_LEAP(y)	((int)(y) % 4 == 0)
#define S_LEAPG(y)	(((int)(y) % 4 == 0 && (int)(y) % 100 != 0) || (int)(y) % 400 == 0)

/* cumulated days before month m (1..12) in a non-leap year; [13] = 365 */
static const int spec_cum[14] = {
	0, 0, 31, 59, 90, 120, 151, 181, 212, 243, 273, 304, 334, 365,
};
static const int spec_mdays[13] = {
	0, 31, 28, 31, 30, 31, 30, 31, 31, 30, 31, 30, 31,
};
#define S_MDAYS(y, m)	(spec_mdays[(m)] + (((m) == 2 && S_LEAP(y)) ? 1 : 0))
#define S_YDAYS(y)	(S_LEAP(y) ? 366 : 365)
/* ordinal day of the year, 1..366 */
#define S_YDAY(y, m, d)	(spec_cum[(m)] + (((m) > 2 && S_LEAP(y)) ? 1 : 0) + (int)(d))
/* running day number; consecutive days have consecutive numbers */
#define S_DAYNO(y, m, d)	(365 * (int)(y) + ((int)(y) - 1) / 4 + S_YDAY(y, m, d))
/* 1970-01-01 = 365*1970 + 1969/4 + 1 = 719050 + 492 + 1 */
#define S_DAYNO_1970	(365 * 1970 + 1969 / 4 + 1)
#define S_UNIXDAY(y, m, d)	(S_DAYNO(y, m, d) - S_DAYNO_1970)
/* weekday Mon=1 .. Sun=7; 1970-01-01 was a Thursday (4) */
#define S_WDAY_OF_DAYNO(n)	((((n) - S_DAYNO_1970) % 7 + 7 + 3) % 7 + 1)
#define S_WDAY(y, m, d)	S_WDAY_OF_DAYNO(S_DAYNO(y, m, d))

#define S_VALID_YEAR(y)	(S_YMIN <= (int)(y) && (int)(y) <= S_YMAX)
#define S_VALID_DATE(y, m, d)	\
	(S_VALID_YEAR(y) && 1 <= (int)(m) && (int)(m) <= 12 && \
	 1 <= (int)(d) && (int)(d) <= S_MDAYS(y, m))

/* milliseconds of the day */
#define S_MSOD(H, M, S, ms)	\
	((((int)(H) * 60 + (int)(M)) * 60 + (int)(S)) * 1000 + (int)(ms))
#define S_SOD(H, M, S)	(((int)(H) * 60 + (int)(M)) * 60 + (int)(S))
#define S_MS_PER_DAY	86400000

/* ISO 8601 weeks: week 1 is the week (Mon..Sun) containing Jan 4th.
 * S_W1MON(y): day-of-year (may be <= 0) of the Monday of week 1. */
#define S_JAN1_WDAY(y)	S_WDAY(y, 1, 1)
#define S_W1MON(y)	(S_JAN1_WDAY(y) <= 4 ? 2 - S_JAN1_WDAY(y) : 9 - S_JAN1_WDAY(y))
/* number of ISO weeks: 53 iff Jan 1 is Thu, or leap and Jan 1 is Wed */
#define S_ISOWEEKS(y)	\
	((S_JAN1_WDAY(y) == 4 || (S_LEAP(y) && S_JAN1_WDAY(y) == 3)) ? 53 : 52)

/* Anonymous Gregorian computus (Meeus/Jones/Butcher): month and day of
 * Easter Sunday.  All operands are < 2^12, divisions are narrow. */
#define SE_a(y)	((int)(y) % 19)
#define SE_b(y)	((int)(y) / 100)
#define SE_c(y)	((int)(y) % 100)
#define SE_d(y)	(SE_b(y) / 4)
#define SE_e(y)	(SE_b(y) % 4)
#define SE_f(y)	((SE_b(y) + 8) / 25)
#define SE_g(y)	((SE_b(y) - SE_f(y) + 1) / 3)
#define SE_h(y)	((19 * SE_a(y) + SE_b(y) - SE_d(y) - SE_g(y) + 15) % 30)
#define SE_i(y)	(SE_c(y) / 4)
#define SE_k(y)	(SE_c(y) % 4)
#define SE_l(y)	((32 + 2 * SE_e(y) + 2 * SE_i(y) - SE_h(y) - SE_k(y)) % 7)
#define SE_m(y)	((SE_a(y) + 11 * SE_h(y) + 22 * SE_l(y)) / 451)
#define S_EASTER_M(y)	((SE_h(y) + SE_l(y) - 7 * SE_m(y) + 114) / 31)
#define S_EASTER_D(y)	((SE_h(y) + SE_l(y) - 7 * SE_m(y) + 114) % 31 + 1)

#endif	/* INCLUDED_spec_cal_h_ */
