/* contracts_bitint.h -- contracts of the small-integer set containers (C19).
 * Postconditions are over the WHOLE view (spec_view.h), from the property:
 * "membership holds exactly for the inserted values and iteration yields each
 * inserted value exactly once and nothing else ... and then terminates". */
#if !defined INCLUDED_contracts_bitint_h_
#define INCLUDED_contracts_bitint_h_
#include "bitint.h"
#include "spec_view.h"

/* ---- insertion: view(ret) == view(bi) U {x}, well-formedness kept */
#define PRE_ass_bui31(bi, x)	(WF_BUI31(bi) && (x) <= 30U)
#define POST_ass_bui31(r, bi, x)	(WF_BUI31(r) && VU31(r) == (VU31(bi) | (1U << (x))))
#define PRE_ass_bui63(bi, x)	(WF_BUI63(bi) && (x) <= 62U)
#define POST_ass_bui63(r, bi, x)	(WF_BUI63(r) && VU63(r) == (VU63(bi) | (1ULL << (x))))
#define PRE_ass_bi31(bi, x)	(WF_BI31(bi) && -31 <= (x) && (x) <= 31)
#define POST_ass_bi31(r, bi, x)	\
	(WF_BI31(r) && VP31(r) == (VP31(bi) | ((x) > 0 ? 1U << (x) : 0U)) && \
	 VN31(r) == (VN31(bi) | ((x) <= 0 ? 1U << (-(x)) : 0U)))
#define PRE_ass_bi63(bi, x)	(WF_BI63(bi) && -63 <= (x) && (x) <= 63)
#define POST_ass_bi63(r, bi, x)	\
	(WF_BI63(r) && VP63(r) == (VP63(bi) | ((x) > 0 ? 1ULL << (x) : 0ULL)) && \
	 VN63(r) == (VN63(bi) | ((x) <= 0 ? 1ULL << (-(x)) : 0ULL)))

/* ---- iteration: rank contract.  c = cursor before, c2 = cursor after */
#define POST_bui31_next(ret, c, c2, bi)	\
	(REM_BUI31(c, bi) == 0U ? (c2) == 0U : \
	 ((c2) != 0U && (c2) > (c) && (c2) <= 64U && CUR_OK_BUI31(c2, bi) && (ret) <= 30U && \
	  (1U << (ret)) == LOWBIT(REM_BUI31(c, bi)) && \
	  REM_BUI31(c2, bi) == (REM_BUI31(c, bi) & ~LOWBIT(REM_BUI31(c, bi)))))
#define POST_bui63_next(ret, c, c2, bi)	\
	(REM_BUI63(c, bi) == 0ULL ? (c2) == 0U : \
	 ((c2) != 0U && (c2) > (c) && (c2) <= 128U && CUR_OK_BUI63(c2, bi) && (ret) <= 62U && \
	  (1ULL << (ret)) == LOWBIT64(REM_BUI63(c, bi)) && \
	  REM_BUI63(c2, bi) == (REM_BUI63(c, bi) & ~LOWBIT64(REM_BUI63(c, bi)))))

/* signed: first the zero, then the positives ascending, then the negatives
 * by ascending magnitude */
#define POST_bi31_next(ret, c, c2, bi)	\
	(REMZ_BI31(c, bi) ? \
	 ((c2) != 0U && (c2) > (c) && (c2) <= 64U && CUR_OK_BI31(c2, bi) && (ret) == 0 && !REMZ_BI31(c2, bi) && \
	  REMP_BI31(c2, bi) == REMP_BI31(c, bi) && REMN_BI31(c2, bi) == REMN_BI31(c, bi)) : \
	 REMP_BI31(c, bi) != 0U ? \
	 ((c2) != 0U && (c2) > (c) && (c2) <= 64U && CUR_OK_BI31(c2, bi) && 1 <= (ret) && (ret) <= 31 && !REMZ_BI31(c2, bi) && \
	  (1U << (ret)) == LOWBIT(REMP_BI31(c, bi)) && \
	  REMP_BI31(c2, bi) == (REMP_BI31(c, bi) & ~LOWBIT(REMP_BI31(c, bi))) && \
	  REMN_BI31(c2, bi) == REMN_BI31(c, bi)) : \
	 REMN_BI31(c, bi) != 0U ? \
	 ((c2) != 0U && (c2) > (c) && (c2) <= 64U && CUR_OK_BI31(c2, bi) && -31 <= (ret) && (ret) <= -1 && !REMZ_BI31(c2, bi) && \
	  (1U << (-(ret))) == LOWBIT(REMN_BI31(c, bi)) && REMP_BI31(c2, bi) == 0U && \
	  REMN_BI31(c2, bi) == (REMN_BI31(c, bi) & ~LOWBIT(REMN_BI31(c, bi)))) : \
	 (c2) == 0U)
#define POST_bi63_next(ret, c, c2, bi)	\
	(REMZ_BI63(c, bi) ? \
	 ((c2) != 0U && (c2) > (c) && (c2) <= 128U && CUR_OK_BI63(c2, bi) && (ret) == 0 && !REMZ_BI63(c2, bi) && \
	  REMP_BI63(c2, bi) == REMP_BI63(c, bi) && REMN_BI63(c2, bi) == REMN_BI63(c, bi)) : \
	 REMP_BI63(c, bi) != 0ULL ? \
	 ((c2) != 0U && (c2) > (c) && (c2) <= 128U && CUR_OK_BI63(c2, bi) && 1 <= (ret) && (ret) <= 63 && !REMZ_BI63(c2, bi) && \
	  (1ULL << (ret)) == LOWBIT64(REMP_BI63(c, bi)) && \
	  REMP_BI63(c2, bi) == (REMP_BI63(c, bi) & ~LOWBIT64(REMP_BI63(c, bi))) && \
	  REMN_BI63(c2, bi) == REMN_BI63(c, bi)) : \
	 REMN_BI63(c, bi) != 0ULL ? \
	 ((c2) != 0U && (c2) > (c) && (c2) <= 128U && CUR_OK_BI63(c2, bi) && -63 <= (ret) && (ret) <= -1 && !REMZ_BI63(c2, bi) && \
	  (1ULL << (-(ret))) == LOWBIT64(REMN_BI63(c, bi)) && REMP_BI63(c2, bi) == 0ULL && \
	  REMN_BI63(c2, bi) == (REMN_BI63(c, bi) & ~LOWBIT64(REMN_BI63(c, bi)))) : \
	 (c2) == 0U)

/* bi383/bi447 iterators as call sites in the fillers need them: cursor stays
 * valid and strictly advances (or ends), the value is in range.  (The
 * member/ordering part of their contract is witness-based, see h_C19b.c.) */
#define POST_bi447_next_weak(ret, c, c2, bi)	\
	((c2) == 0U || ((c2) > (c) && (c2) <= 1000U && CUR_OK_447(bi, c2) && -447 <= (ret) && (ret) <= 447))
#define POST_bi383_next_weak(ret, c, c2, bi)	\
	((c2) == 0U || ((c2) > (c) && (c2) <= 1000U && CUR_OK_383(bi, c2) && -383 <= (ret) && (ret) <= 383))

#if defined CONTRACT_DECLS_bi447 && !defined REPLAY
int bi447_next(bitint_iter_t *restrict iter, const bitint447_t *bi)
__CPROVER_requires(__CPROVER_is_fresh(iter, sizeof(*iter)))
__CPROVER_requires(WF_447(bi) && CUR_OK_447(bi, *iter))
__CPROVER_assigns(*iter)
__CPROVER_ensures(POST_bi447_next_weak(__CPROVER_return_value, __CPROVER_old(*iter), *iter, bi));
int bi383_next(bitint_iter_t *restrict iter, const bitint383_t *bi)
__CPROVER_requires(__CPROVER_is_fresh(iter, sizeof(*iter)))
__CPROVER_requires(WF_383(bi) && CUR_OK_383(bi, *iter))
__CPROVER_assigns(*iter)
__CPROVER_ensures(POST_bi383_next_weak(__CPROVER_return_value, __CPROVER_old(*iter), *iter, bi));
#endif

#if defined CONTRACT_DECLS_bitint && !defined REPLAY
static inline unsigned int bui31_next(bitint_iter_t *restrict iter, bituint31_t bi)
__CPROVER_requires(__CPROVER_is_fresh(iter, sizeof(*iter)))
__CPROVER_requires(WF_BUI31(bi) && CUR_OK_BUI31(*iter, bi))
__CPROVER_assigns(*iter)
__CPROVER_ensures(POST_bui31_next(__CPROVER_return_value, __CPROVER_old(*iter), *iter, bi));
static inline unsigned int bui63_next(bitint_iter_t *restrict iter, bituint63_t bi)
__CPROVER_requires(__CPROVER_is_fresh(iter, sizeof(*iter)))
__CPROVER_requires(WF_BUI63(bi) && CUR_OK_BUI63(*iter, bi))
__CPROVER_assigns(*iter)
__CPROVER_ensures(POST_bui63_next(__CPROVER_return_value, __CPROVER_old(*iter), *iter, bi));
static inline int bi31_next(bitint_iter_t *restrict iter, bitint31_t bi)
__CPROVER_requires(__CPROVER_is_fresh(iter, sizeof(*iter)))
__CPROVER_requires(WF_BI31(bi) && CUR_OK_BI31(*iter, bi))
__CPROVER_assigns(*iter)
__CPROVER_ensures(POST_bi31_next(__CPROVER_return_value, __CPROVER_old(*iter), *iter, bi));
static inline int bi63_next(bitint_iter_t *restrict iter, bitint63_t bi)
__CPROVER_requires(__CPROVER_is_fresh(iter, sizeof(*iter)))
__CPROVER_requires(WF_BI63(bi) && CUR_OK_BI63(*iter, bi))
__CPROVER_assigns(*iter)
__CPROVER_ensures(POST_bi63_next(__CPROVER_return_value, __CPROVER_old(*iter), *iter, bi));
#endif

#endif	/* INCLUDED_contracts_bitint_h_ */
