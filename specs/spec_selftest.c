/* spec_selftest.c -- native supporting check (not a proof): the spec's day
 * number, weekday and Easter against libc's timegm/gmtime_r and a table of
 * known Easter dates, for every day 1901..2099, so that a slip in the spec
 * cannot become a false alarm. */
#define _GNU_SOURCE
#include <stdio.h>
#include <time.h>
#include <string.h>
#include "spec_cal.h"

int main(void)
{
	long n = 0;
	for (int y = 1901; y <= 2099; y++) {
		for (int m = 1; m <= 12; m++) {
			for (int d = 1; d <= S_MDAYS(y, m); d++, n++) {
				struct tm tm;
				memset(&tm, 0, sizeof(tm));
				tm.tm_year = y - 1900, tm.tm_mon = m - 1, tm.tm_mday = d;
				time_t t = timegm(&tm);
				if (t != (time_t)S_UNIXDAY(y, m, d) * 86400) {
					printf("S_UNIXDAY wrong for %d-%d-%d\n", y, m, d);
					return 1;
				}
				gmtime_r(&t, &tm);
				if ((tm.tm_wday ? tm.tm_wday : 7) != S_WDAY(y, m, d)) {
					printf("S_WDAY wrong for %d-%d-%d\n", y, m, d);
					return 1;
				}
				if (tm.tm_yday + 1 != S_YDAY(y, m, d)) {
					printf("S_YDAY wrong for %d-%d-%d\n", y, m, d);
					return 1;
				}
			}
		}
		if (S_LEAP(y) != S_LEAPG(y)) {
			printf("leap rule differs for %d\n", y);
			return 1;
		}
	}
	/* a few known Easter Sundays */
	static const int e[][3] = {{1961, 4, 2}, {2000, 4, 23}, {2008, 3, 23}, {2011, 4, 24}, {2019, 4, 21}, {2024, 3, 31}, {2038, 4, 25}, {1943, 4, 25}, {1913, 3, 23}};
	for (unsigned i = 0; i < sizeof(e) / sizeof(*e); i++) {
		if (S_EASTER_M(e[i][0]) != e[i][1] || S_EASTER_D(e[i][0]) != e[i][2]) {
			printf("Easter wrong for %d\n", e[i][0]);
			return 1;
		}
	}
	/* ISO weeks: 2015, 2020, 2026 have 53 weeks; 2021 has 52 */
	if (S_ISOWEEKS(2015) != 53 || S_ISOWEEKS(2020) != 53 || S_ISOWEEKS(2026) != 53 || S_ISOWEEKS(2021) != 52 || S_ISOWEEKS(2004) != 53) {
		printf("ISO weeks wrong\n");
		return 1;
	}
	printf("spec self-test ok: %ld days\n", n);
	return 0;
}
